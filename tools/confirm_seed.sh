#!/bin/bash
# usage: tools/confirm_seed.sh <ID> <dir containing patch.diff and zz_demo_test.go> [suite|nosuite]
# Confirms a seeded change in a fresh scratch worktree of /repo: it compiles, the demo fails with it and
# passes without it, and (suite) the existing root-module tests still pass with it. Removes the worktree.
id=$1; src=$2; suite=${3:-suite}
export GOFLAGS=-mod=mod GOPROXY=off GOSUMDB=off
wt=/tmp/cf-$id
# the demo lives in the package named by its package clause (root package, db/ or v2/)
demodir=.; testpkg=.
grep -q '^package db' $src/zz_demo_test.go && { demodir=db; testpkg=./db/; }
[ -f $src/MODULE_V2 ] && { demodir=v2; testpkg=.; }
git -C /repo worktree remove --force $wt 2>/dev/null
git -C /repo worktree add -q $wt HEAD || exit 2
cp /repo/cmd/legacydump/legacydump $wt/cmd/legacydump/ 2>/dev/null
cd $wt
res() { echo "CONFIRM $id: $*"; }
git apply $src/patch.diff || { res "patch does not apply"; exit 1; }
go build ./... || { res "does not compile"; exit 1; }
cp $src/zz_demo_test.go $demodir/
(cd $( [ -f $src/MODULE_V2 ] && echo v2 || echo . ) && go test -vet=off -count=1 -run 'TestDemo' $testpkg) > /tmp/cf-$id.demo-with.log 2>&1 && { res "demo PASSES with the change (bad)"; bad=1; } || res "demo fails with the change (good)"
rm $demodir/zz_demo_test.go
if [ "$suite" = suite ]; then
  go test -vet=off -count=1 . ./cache ./fastnode ./keyformat ./internal/... ./db/... > /tmp/cf-$id.suite.log 2>&1 && res "existing suite passes with the change (good)" || { res "existing suite FAILS with the change (bad)"; bad=1; }
fi
git checkout -q -- . 
cp $src/zz_demo_test.go $demodir/
(cd $( [ -f $src/MODULE_V2 ] && echo v2 || echo . ) && go test -vet=off -count=1 -run 'TestDemo' $testpkg) > /tmp/cf-$id.demo-without.log 2>&1 && res "demo passes without the change (good)" || { res "demo FAILS without the change (bad)"; bad=1; }
cd /; git -C /repo worktree remove --force $wt
[ -z "$bad" ] && res "ALL CONFIRMED" || res "NOT CONFIRMED"
