#!/bin/bash
# usage: tools/run_tier.sh <tier> <per-check-timeout-seconds> <ID>...   (run from a /verif checkout)
# Builds bin/vcheck if needed and runs the checks one after the other, printing one line per check.
tier=$1; shift; to=$1; shift
export GOFLAGS=-mod=mod GOPROXY=off GOSUMDB=off GOTOOLCHAIN=local
export VERIF_DIR=$(pwd)
[ -n "$VP_RUN_REPO" ] && export VERIF_REPO=$VP_RUN_REPO
(cd engine && go build -o ../bin/vcheck ./cmd/vcheck) || exit 2
mkdir -p evidence replays
for id in "$@"; do
  t0=$(date +%s)
  timeout $to bin/vcheck run $id --tier $tier > tier-$tier-$id.log 2>&1
  rc=$?
  t1=$(date +%s)
  echo "RESULT tier=$tier id=$id exit=$rc wall=$((t1-t0))s $(grep -c '^VIOLATION' tier-$tier-$id.log) violations $(grep -c '^KNOWN-FINDING' tier-$tier-$id.log) known"
  grep -h "paths=" tier-$tier-$id.log | cut -c1-260
  grep -h "BUDGET\|INCONCLUSIVE\|MACHINERY\|required coverage" tier-$tier-$id.log | head -5 | cut -c1-300
done
