#!/usr/bin/env python3
"""Regenerates /verif/MANIFEST.json from tools/claims.json (claimed checks) — every property
of properties.jsonl that is not claimed is listed under not_applicable with its reason."""
import json, os
root = os.path.dirname(os.path.dirname(os.path.abspath(__file__)))
claims = json.load(open(os.path.join(root, "tools", "claims.json")))
props = [json.loads(l) for l in open(os.path.join(root, "properties.jsonl"))]
baseline = json.load(open("/root/.vp/BASELINE.json"))["cmd"] if os.path.exists("/root/.vp/BASELINE.json") else claims.get("baseline_off_cmd", "")
checks, na = [], []
for p in props:
    pid = p["id"]
    c = claims["claimed"].get(pid)
    if c:
        checks.append({
            "property_id": pid,
            "quick_cmd": f"bin/vcheck run {pid} --tier quick",
            "thorough_cmd": f"bin/vcheck run {pid} --tier thorough",
            "evidence_file": f"/verif/evidence/{pid}.json",
            "replay_cmd_template": "bin/vcheck replay {path}",
            "engine": "symgo",
            "level_claimed": {"category": "model_checking", "text": c["text"], "design_ref": c.get("design_ref", "DESIGN.md §4 " + pid)},
            "level_note": c["note"],
            "technique": c.get("technique", "bounded symbolic execution of the Go SSA of /repo (own executor) + SMT (z3; cvc5/z3-new cross-check); counterexamples replayed natively"),
        })
    else:
        na.append({"property_id": pid, "reason": claims["not_applicable"].get(pid, "check not built yet in this session (work in progress)")})
m = {
    "version": 1,
    "setup_cmd": "cd engine && GOFLAGS=-mod=mod GOPROXY=off GOSUMDB=off GOTOOLCHAIN=local go build -o ../bin/vcheck ./cmd/vcheck && cd .. && bin/vcheck selftest",
    "hooks": {
        "guard": "verif",
        "enable": "harness files are injected with go/packages Overlay and `go test -overlay` (nothing is written into /repo); build tag `verif` is passed to the loader for guarded hook files",
        "baseline_off_cmd": baseline,
        "source_commits": claims.get("hook_commits", []),
        "add_only": True,
    },
    "engines": [{"name": "symgo", "path": "engine/", "serves_properties": [c["property_id"] for c in checks],
                 "kind_free_text": "symbolic executor for Go SSA (go/ssa of the real working tree, regenerated each run) with bit-vector terms, z3/cvc5 back ends, path exploration by deterministic replay, native replay of models"}],
    "checks": checks,
    "not_applicable": na,
    "notes": claims.get("notes", ""),
}
json.dump(m, open(os.path.join(root, "MANIFEST.json"), "w"), indent=1)
print(f"MANIFEST.json: {len(checks)} checks, {len(na)} not_applicable")
