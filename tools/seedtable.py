#!/usr/bin/env python3
"""Regenerates the table of DESIGN.md §8.1 from seeded/*/meta.json (between the markers)."""
import json, glob, os, re
rows = []
def key(d):
    m = re.match(r'.*/C(\d+)([a-z]?)$', d)
    return (int(m.group(1)), m.group(2))
for d in sorted(glob.glob('/verif/seeded/C*'), key=key):
    mp = os.path.join(d, 'meta.json')
    if not os.path.exists(mp):
        continue
    m = json.load(open(mp))
    esc = lambda s: s.replace('|', '\\|').replace('\n', ' ')
    rows.append('| %s | %s | %s | %s | %s |' % (os.path.basename(d), esc(m['change']), esc(m['needs']),
        esc('; '.join(m['caught_by'])), esc('; '.join(m.get('missed_by') or []) or '—')))
table = '| seed | change | needs | caught by | missed by (before strengthening) |\n|---|---|---|---|---|\n' + '\n'.join(rows) + '\n'
p = '/verif/DESIGN.md'
s = open(p).read()
a = s.index('| seed | change | needs |')
b = s.index('## 9. Log of false alarms')
s = s[:a] + table + '\n' + s[b:]
open(p, 'w').write(s)
n = len(rows)
missed = [os.path.basename(d) for d in sorted(glob.glob('/verif/seeded/C*'), key=key) if (json.load(open(d+'/meta.json')).get('missed_by'))]
print(n, 'seeds;', len(missed), 'missed at first:', ' '.join(missed))
