#!/usr/bin/env python3
"""Writes BOUNDS.md: the exact bounds of every harness and tier, from harness/registry.json."""
import json
r = json.load(open('/verif/harness/registry.json'))
out = ['# Bounds per harness and tier (generated from harness/registry.json by tools/boundsdoc.py)\n',
       'These strings are copied into every evidence file; nothing is claimed outside them.\n']
for pr in r['properties']:
    out.append('\n## %s\n' % pr['id'])
    for h in pr['harnesses']:
        b = h.get('bounds', {})
        tiers = h.get('tiers')
        out.append('* `%s`%s\n  * quick: %s\n  * thorough: %s' % (h['name'], (' (tiers: %s)' % ','.join(tiers)) if tiers else '', b.get('quick', '—'), b.get('thorough', '—')))
        if h.get('covers'):
            out.append('  * required coverage labels (vacuity guard): ' + ', '.join(h['covers']))
    if pr.get('outside'):
        out.append('\nOutside the claim: ' + '; '.join(pr['outside']) + '.')
    if pr.get('assumptions'):
        out.append('\nAdditional assumptions: ' + '; '.join(pr['assumptions']) + '.')
open('/verif/BOUNDS.md', 'w').write('\n'.join(out) + '\n')
print('BOUNDS.md written')
