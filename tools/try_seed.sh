#!/bin/bash
# usage: tools/try_seed.sh <patch.diff> <ID> [vcheck args...]: apply a seeded change to /repo, run the check, undo.
patch=$1; id=$2; shift; shift
cd /verif
git -C /repo diff --quiet || { echo "/repo is dirty"; exit 2; }
git -C /repo apply $patch || exit 2
timeout 3000 bin/vcheck run $id "$@" > /tmp/try-$id.log 2>&1
rc=$?
git -C /repo checkout -- .
echo "TRY $id exit=$rc violations=$(grep -c '^VIOLATION' /tmp/try-$id.log) known=$(grep -c '^KNOWN-FINDING' /tmp/try-$id.log) machinery=$(grep -c 'MACHINERY' /tmp/try-$id.log)"
grep -A1 "^VIOLATION" /tmp/try-$id.log | grep harness | sed 's/msg=.*native/native/' | sort | uniq -c | head -8
exit $rc
