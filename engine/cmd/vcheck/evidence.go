package main

import (
	"encoding/json"
	"fmt"
	"os"
	"path/filepath"
	"sort"
	"strings"
	"time"

	"verif/engine/symgo"
)

type harnessEv struct {
	Harness          string         `json:"harness"`
	Bounds           string         `json:"bounds"`
	Paths            int            `json:"paths"`
	CompletePaths    int            `json:"complete_paths"`
	PathsCutByAssume int            `json:"paths_cut_by_assume"`
	PanicPaths       int            `json:"paths_ending_in_panic"`
	Decisions        int            `json:"decisions"`
	SSASteps         int64          `json:"ssa_instructions_executed"`
	MaxStepsPerPath  int            `json:"max_ssa_instructions_on_one_path"`
	Asserts          int            `json:"assertion_queries"`
	Discharged       int            `json:"discharged"`
	Trivial          int            `json:"discharged_without_solver"`
	Violations       int            `json:"violations_found_symbolically"`
	Queries          map[string]int `json:"queries"`
	SolverS          float64        `json:"solver_s"`
	WallS            float64        `json:"wall_s"`
	Covers           map[string]int `json:"coverage_labels"`
	BudgetHits       map[string]int `json:"budget_hits,omitempty"`
	Inconclusive     map[string]int `json:"inconclusive,omitempty"`
	Truncated        bool           `json:"truncated,omitempty"`
	ImpreciseHash    int            `json:"imprecise_hash_byte"`
	MaxAlloc         int            `json:"max_slice_elements_allocated_on_one_path"`
}

type evidence struct {
	prop             *PropSpec
	tier             string
	seed             int
	solver           string
	Harnesses        []harnessEv
	Samples          []interface{}
	States           int
	Transitions      int
	Obligations      int
	Discharged       int
	Validated        int
	ValidationFailed int
	Unreproduced     int
	Violations       int
	KnownFindings    []string
	Cross            []map[string]interface{}
	Funcs            []string
	LoadS            float64
	wall             float64
	exit             int
	queries          map[string]int
	solverS          float64
}

func newEvidence(p *PropSpec, o runOpts) *evidence {
	return &evidence{prop: p, tier: o.tier, seed: o.seed, solver: o.solver, queries: map[string]int{}}
}

func (e *evidence) addHarness(h HarnessSpec, st *symgo.Stats, tier string) {
	he := harnessEv{
		Harness: h.Name, Bounds: h.Bounds[tier], Paths: st.Paths, CompletePaths: st.Complete, PathsCutByAssume: st.Assumed,
		PanicPaths: st.Panics, Decisions: st.Decisions, SSASteps: st.Steps, MaxStepsPerPath: st.MaxSteps,
		Asserts: st.Asserts, Discharged: st.Discharged, Trivial: st.Trivial, Violations: len(st.Violations),
		Queries: map[string]int{"total": st.Solver.Queries, "sat": st.Solver.Sat, "unsat": st.Solver.Unsat, "unknown": st.Solver.Unknown, "errors": st.Solver.Errors},
		SolverS: st.Solver.Time.Seconds(), WallS: st.Wall.Seconds(), Covers: st.Covers, ImpreciseHash: st.Imprecise, MaxAlloc: st.MaxAlloc,
	}
	if he.Bounds == "" {
		he.Bounds = h.Bounds["quick"]
	}
	if len(st.Budget) > 0 {
		he.BudgetHits = st.Budget
	}
	if len(st.Inconclusive) > 0 {
		he.Inconclusive = st.Inconclusive
	}
	he.Truncated = st.Truncated
	e.Harnesses = append(e.Harnesses, he)
	e.States += st.Complete
	e.Transitions += st.Decisions
	e.Obligations += st.Asserts
	e.Discharged += st.Discharged
	e.queries["total"] += st.Solver.Queries
	e.queries["sat"] += st.Solver.Sat
	e.queries["unsat"] += st.Solver.Unsat
	e.queries["unknown"] += st.Solver.Unknown
	e.queries["errors"] += st.Solver.Errors
	e.solverS += st.Solver.Time.Seconds()
	for i, s := range st.Samples {
		if i >= 2 {
			break
		}
		e.Samples = append(e.Samples, map[string]interface{}{
			"harness": h.Name, "what": "a model (concrete inputs) of one complete symbolic path; each path stands for all inputs satisfying its path condition",
			"inputs": compactInputs(s.Inputs), "ssa_instructions": s.Steps,
		})
	}
}

func compactInputs(in []symgo.ReplayInput) []string {
	out := make([]string, 0, len(in))
	for _, x := range in {
		out = append(out, fmt.Sprintf("%s=%d", x.Tag, x.Val))
	}
	if len(out) > 60 {
		out = append(out[:60], fmt.Sprintf("… (%d more)", len(in)-60))
	}
	return out
}

// setFuncs keeps the functions of the module under test (and ics23/btree) that were executed.
func (e *evidence) setFuncs(funcs map[string]bool, ld *symgo.Loaded, modRoot string) {
	var fs []string
	for f := range funcs {
		if strings.Contains(f, "github.com/cosmos/iavl") || strings.Contains(f, "github.com/cosmos/ics23") || strings.Contains(f, "github.com/google/btree") {
			if strings.Contains(f, ".v") && strings.Contains(f, "zz_verif") {
				continue
			}
			fs = append(fs, f)
		}
	}
	sort.Strings(fs)
	e.Funcs = fs
}

func (e *evidence) finish(wall time.Duration, exit int, o runOpts) {
	e.wall = wall.Seconds()
	e.exit = exit
}

func (e *evidence) write() error {
	p := e.prop
	status := map[int]string{0: "held within the stated bounds", 1: "violation reproduced natively", 2: "inconclusive or machinery error — no claim"}[e.exit]
	if len(e.Samples) == 0 {
		e.Samples = append(e.Samples, map[string]interface{}{"note": "no complete path produced a model"})
	}
	var bounds []string
	for _, h := range e.Harnesses {
		bounds = append(bounds, h.Harness+": "+h.Bounds)
	}
	cov := map[string]interface{}{
		"states":                        e.States,
		"transitions":                   e.Transitions,
		"traces_validated_against_impl": e.Validated,
		"samples":                       e.Samples,
		"obligations":                   e.Obligations,
		"discharged":                    e.Discharged,
		"exhaustive":                    e.exit == 0,
		"explanation": "Bounded symbolic execution of the real Go code (go/ssa of /repo's working tree, regenerated on this run). " +
			"states = complete feasible symbolic paths; transitions = decisions on those paths; obligations = assertion checks sent to or decided for the solver " +
			"(PC ∧ ¬assertion), discharged = those answered unsat (or constant-true). Within the bounds listed the verdict covers every value of the symbolic inputs; " +
			"nothing is claimed outside them. exit 2 (inconclusive) is never reported as a pass.",
		"status":                         status,
		"bounds":                         bounds,
		"outside_the_claim":              p.Outside,
		"harnesses":                      e.Harnesses,
		"functions_encoded":              e.Funcs,
		"functions_encoded_count":        len(e.Funcs),
		"queries":                        e.queries,
		"solver":                         e.solver,
		"solver_s":                       e.solverS,
		"load_and_ssa_build_s":           e.LoadS,
		"translator_validation_failures": e.ValidationFailed,
		"counterexamples_not_reproduced": e.Unreproduced,
		"known_findings_rediscovered":    e.KnownFindings,
		"cross_solver":                   e.Cross,
		"checker_cmd":                    fmt.Sprintf("bin/vcheck run %s --tier %s", p.ID, e.tier),
		"trusted_base": []string{"go/ssa translation of Go", "symgo executor and intrinsics (validated on every run by native replay of path models)",
			"z3 (cross-checkable with --solver cvc5|z3-new)", "reference oracles in harness/", "native replay harness"},
	}
	doc := map[string]interface{}{
		"property_id": p.ID,
		"tier":        e.tier,
		"seed":        e.seed,
		"level":       "model_checking",
		"coverage":    cov,
		"assumptions": append([]string{
			"A1 SHA-256 is modelled as an injective opaque token (collision-free; the code depends on nothing else about it)",
			"A2 storage is the vDB model of the ordered-KV contract in db/types.go (native replay runs the same harness on the real build)",
			"A3 map and sync.Map iteration order = insertion order",
			"A4 goroutines run under one deterministic cooperative scheduler",
			"A5 sync.Pool always misses; logging/formatting have empty bodies",
			"A7 64-bit int",
		}, p.Assumptions...),
		"wall_s":     e.wall,
		"violations": e.Violations,
	}
	os.MkdirAll(filepath.Join(verifDir, "evidence"), 0o755)
	data, err := json.MarshalIndent(doc, "", " ")
	if err != nil {
		return err
	}
	return os.WriteFile(filepath.Join(verifDir, "evidence", p.ID+".json"), data, 0o644)
}
