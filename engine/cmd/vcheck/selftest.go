package main

import (
	"fmt"
	"os"

	"verif/engine/symgo"
)

// cmdSelftest: solver round trips on every back end + the smoke harnesses (SELF property).
func cmdSelftest() int {
	fail := 0
	for _, kind := range []string{"z3", "z3-new", "cvc5"} {
		if err := symgo.SolverSelfTest(kind); err != nil {
			fmt.Fprintf(os.Stderr, "selftest: solver %s: %v\n", kind, err)
			if kind == "z3" {
				fail++
			}
		} else {
			fmt.Fprintf(os.Stderr, "selftest: solver %s ok\n", kind)
		}
	}
	if fail > 0 {
		return 2
	}
	return cmdRun("SELF", runOpts{tier: "quick", solver: "z3", workers: 8})
}
