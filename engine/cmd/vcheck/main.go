// vcheck: runs the solver-based checks of /verif against /repo's current working tree.
//
//	vcheck run <PROP> [--tier quick|thorough] [--solver z3|z3-new|cvc5] [--workers N] [--harness NAME] [--no-replay]
//	vcheck replay <path>
//	vcheck selftest
package main

import (
	"encoding/json"
	"flag"
	"fmt"
	"os"
	"os/exec"
	"path/filepath"
	"regexp"
	"runtime"
	"runtime/debug"
	"runtime/pprof"
	"sort"
	"strconv"
	"strings"
	"time"

	"golang.org/x/tools/go/ssa"

	"verif/engine/symgo"
)

var (
	verifDir = envOr("VERIF_DIR", "/verif")
	repoDir  = envOr("VERIF_REPO", "/repo")
)

func envOr(k, d string) string {
	if v := os.Getenv(k); v != "" {
		return v
	}
	return d
}

type HarnessSpec struct {
	Name     string            `json:"name"`
	Bounds   map[string]string `json:"bounds"` // tier -> text
	Covers   []string          `json:"covers"` // labels that must be reached on some path
	MaxSteps int               `json:"max_steps"`
	Tiers    []string          `json:"tiers"` // tiers in which the harness runs (default: all)
	Cross    bool              `json:"cross_solver"` // re-decide this harness on a second solver and diff the verdicts
	Concrete bool              `json:"concrete_hash"` // compute real SHA-256 for concrete preimages (golden differential runs)
}

type PropSpec struct {
	ID          string        `json:"id"`
	Dir         string        `json:"dir"`     // package directory relative to the module root
	Module      string        `json:"module"`  // "" (root module) or "v2"
	Package     string        `json:"package"` // package name of the harness files
	HarnessDir  string        `json:"harness_dir"`
	Harnesses   []HarnessSpec `json:"harnesses"`
	Outside     []string      `json:"outside"`
	Assumptions []string      `json:"assumptions"`
	Encoded     []string      `json:"functions_of_interest"`
	CommonSkip  []string      `json:"common_exclude"`
	Pretest     string        `json:"native_pretest"` // native test that must pass before exploring (e.g. codec validation)
}

type Registry struct {
	Props []PropSpec `json:"properties"`
}

type KnownFinding struct {
	Property string `json:"property"`
	ID       string `json:"id"`
	Label    string `json:"label"`  // assertion label that identifies the failing region
	Status   string `json:"status"` // recorded | fixed
	Commit   string `json:"commit,omitempty"`
	What     string `json:"what"`
}

func loadRegistry() (*Registry, error) {
	data, err := os.ReadFile(filepath.Join(verifDir, "harness", "registry.json"))
	if err != nil {
		return nil, err
	}
	var r Registry
	if err := json.Unmarshal(data, &r); err != nil {
		return nil, fmt.Errorf("registry.json: %v", err)
	}
	return &r, nil
}

func loadKnown() ([]KnownFinding, error) {
	data, err := os.ReadFile(filepath.Join(verifDir, "known_findings.json"))
	if err != nil {
		if os.IsNotExist(err) {
			return nil, nil
		}
		return nil, err
	}
	var k struct {
		Findings []KnownFinding `json:"findings"`
	}
	if err := json.Unmarshal(data, &k); err != nil {
		return nil, fmt.Errorf("known_findings.json: %v", err)
	}
	return k.Findings, nil
}

// buildOverlay materialises the harness files for prop in a scratch dir and returns
// virtual path -> real path (test file included only when withTest).
func buildOverlay(p *PropSpec, scratch string, withTest bool) (map[string]string, error) {
	modRoot := repoDir
	if p.Module != "" {
		modRoot = filepath.Join(repoDir, p.Module)
	}
	pkgDir := filepath.Join(modRoot, p.Dir)
	ov := map[string]string{}
	hdir := filepath.Join(verifDir, "harness", p.HarnessDir)
	ents, err := os.ReadDir(hdir)
	if err != nil {
		return nil, err
	}
	for _, e := range ents {
		if e.IsDir() || !strings.HasSuffix(e.Name(), ".go") {
			continue
		}
		if strings.HasSuffix(e.Name(), "_test.go") && !withTest {
			continue
		}
		ov[filepath.Join(pkgDir, e.Name())] = filepath.Join(hdir, e.Name())
	}
	common := filepath.Join(verifDir, "harness", "common")
	cents, err := os.ReadDir(common)
	if err != nil {
		return nil, err
	}
	for _, e := range cents {
		if !strings.HasSuffix(e.Name(), ".go") || contains(p.CommonSkip, e.Name()) {
			continue
		}
		if strings.HasSuffix(e.Name(), "_test.go") && !withTest {
			continue
		}
		data, err := os.ReadFile(filepath.Join(common, e.Name()))
		if err != nil {
			return nil, err
		}
		data = []byte(strings.Replace(string(data), "package PKGNAME", "package "+p.Package, 1))
		dst := filepath.Join(scratch, p.Package+"_"+e.Name())
		if err := os.WriteFile(dst, data, 0o644); err != nil {
			return nil, err
		}
		ov[filepath.Join(pkgDir, e.Name())] = dst
	}
	return ov, nil
}

type replayCase struct {
	Harness string               `json:"harness"`
	Inputs  []symgo.ReplayInput  `json:"inputs"`
	Known   []string             `json:"known"`
	Tier    string               `json:"tier"`
	Expect  string               `json:"expect,omitempty"`
	Obs     []symgo.Observation  `json:"predicted_observations,omitempty"`
	Prop    string               `json:"property,omitempty"`
	Kind    string               `json:"kind,omitempty"`
	Label   string               `json:"label,omitempty"`
	Msg     string               `json:"msg,omitempty"`
}

type replayResult struct {
	Result string
	Obs    []symgo.Observation
	Ran    bool
}

var replayLine = regexp.MustCompile(`^REPLAY (\d+) (\S+) ("(?:[^"\\]|\\.)*") (.*)$`)

// nativeReplay runs cases natively (go test -overlay) and returns one result per case.
func nativeReplay(p *PropSpec, cases []replayCase, scratch string) ([]replayResult, string, error) {
	res := make([]replayResult, len(cases))
	if len(cases) == 0 {
		return res, "", nil
	}
	ov, err := buildOverlay(p, scratch, true)
	if err != nil {
		return nil, "", err
	}
	ovJSON, _ := json.Marshal(map[string]interface{}{"Replace": ov})
	ovPath := filepath.Join(scratch, "overlay.json")
	if err := os.WriteFile(ovPath, ovJSON, 0o644); err != nil {
		return nil, "", err
	}
	casesPath := filepath.Join(scratch, "cases.json")
	cj, _ := json.Marshal(cases)
	if err := os.WriteFile(casesPath, cj, 0o644); err != nil {
		return nil, "", err
	}
	modRoot := repoDir
	if p.Module != "" {
		modRoot = filepath.Join(repoDir, p.Module)
	}
	for _, f := range []string{"go.mod", "go.sum"} {
		data, err := os.ReadFile(filepath.Join(modRoot, f))
		if err != nil {
			return nil, "", err
		}
		if err := os.WriteFile(filepath.Join(scratch, f), data, 0o644); err != nil {
			return nil, "", err
		}
	}
	runOnce := func(only int) (string, error) {
		args := []string{"test", "-tags", "verif", "-v", "-vet=off", "-count=1", "-run", "^TestVerifReplay$", "-timeout", "30m",
			"-modfile=" + filepath.Join(scratch, "go.mod"), "-overlay", ovPath, "./" + p.Dir}
		cmd := exec.Command("go", args...)
		cmd.Dir = modRoot
		cmd.Env = append(os.Environ(), "GOFLAGS=-mod=mod", "GOPROXY=off", "GOSUMDB=off", "GOTOOLCHAIN=local", "GOWORK=off",
			"VERIF_REPLAY="+casesPath)
		if only >= 0 {
			cmd.Env = append(cmd.Env, "VERIF_REPLAY_ONLY="+strconv.Itoa(only))
		}
		out, err := cmd.CombinedOutput()
		return string(out), err
	}
	parse := func(out string) {
		for _, line := range strings.Split(out, "\n") {
			m := replayLine.FindStringSubmatch(strings.TrimSpace(line))
			if m == nil {
				continue
			}
			i, _ := strconv.Atoi(m[1])
			r, _ := strconv.Unquote(m[3])
			var obs []symgo.Observation
			json.Unmarshal([]byte(m[4]), &obs)
			if i >= 0 && i < len(res) {
				res[i] = replayResult{Result: r, Obs: obs, Ran: true}
			}
		}
	}
	out, _ := runOnce(-1)
	parse(out)
	log := out
	if !strings.Contains(out, "REPLAY ") && !strings.Contains(out, "REPLAY-START") {
		return res, log, fmt.Errorf("native replay did not run:\n%s", tail(out, 40))
	}
	// cases that killed the test binary (fatal error, runtime throw): run one by one
	for i := range res {
		if !res[i].Ran {
			o, _ := runOnce(i)
			log += o
			parse(o)
			if !res[i].Ran {
				msg := "crash"
				if k := strings.Index(o, "fatal error:"); k >= 0 {
					end := strings.Index(o[k:], "\n")
					if end < 0 {
						end = len(o) - k
					}
					msg = "fatal:" + strings.TrimSpace(o[k+len("fatal error:"):k+end])
				} else if strings.Contains(o, "panic: test timed out") {
					msg = "timeout"
				}
				res[i] = replayResult{Result: msg, Ran: true}
			}
		}
	}
	return res, log, nil
}

// nativePretest runs one native test of the harness package (go test -overlay).
func nativePretest(p *PropSpec, scratch string) (string, error) {
	ov, err := buildOverlay(p, scratch, true)
	if err != nil {
		return "", err
	}
	ovJSON, _ := json.Marshal(map[string]interface{}{"Replace": ov})
	ovPath := filepath.Join(scratch, "overlay-pretest.json")
	if err := os.WriteFile(ovPath, ovJSON, 0o644); err != nil {
		return "", err
	}
	modRoot := repoDir
	if p.Module != "" {
		modRoot = filepath.Join(repoDir, p.Module)
	}
	for _, f := range []string{"go.mod", "go.sum"} {
		data, err := os.ReadFile(filepath.Join(modRoot, f))
		if err != nil {
			return "", err
		}
		if err := os.WriteFile(filepath.Join(scratch, f), data, 0o644); err != nil {
			return "", err
		}
	}
	cmd := exec.Command("go", "test", "-tags", "verif", "-v", "-vet=off", "-count=1", "-run", "^"+p.Pretest+"$",
		"-modfile="+filepath.Join(scratch, "go.mod"), "-overlay", ovPath, "./"+p.Dir)
	cmd.Dir = modRoot
	cmd.Env = append(os.Environ(), "GOFLAGS=-mod=mod", "GOPROXY=off", "GOSUMDB=off", "GOTOOLCHAIN=local", "GOWORK=off")
	// the legacy-format pretest needs the repo's legacydump helper (a build artefact the repo's own tests
	// also need, ignored by git): when it has not been built, build it from /repo's source into scratch
	if ld := filepath.Join(repoDir, "cmd", "legacydump"); p.Pretest == "TestVerifLegacyFormat" {
		if _, serr := os.Stat(filepath.Join(ld, "legacydump")); serr != nil {
			bin := filepath.Join(scratch, "legacydump")
			for _, f := range []string{"go.mod", "go.sum"} {
				data, rerr := os.ReadFile(filepath.Join(ld, f))
				if rerr != nil {
					return "", rerr
				}
				if werr := os.WriteFile(filepath.Join(scratch, "legacydump."+f), data, 0o644); werr != nil {
					return "", werr
				}
			}
			b := exec.Command("go", "build", "-modfile="+filepath.Join(scratch, "legacydump.go.mod"), "-o", bin, "main.go")
			b.Dir = ld
			b.Env = cmd.Env
			if bout, berr := b.CombinedOutput(); berr != nil {
				return string(bout), fmt.Errorf("building legacydump: %v", berr)
			}
			cmd.Env = append(cmd.Env, "VERIF_LEGACYDUMP="+bin)
		}
	}
	out, err := cmd.CombinedOutput()
	if err == nil && !strings.Contains(string(out), "--- PASS: "+p.Pretest) {
		err = fmt.Errorf("pretest did not run (skipped?)")
	}
	return string(out), err
}

func tail(s string, n int) string {
	lines := strings.Split(s, "\n")
	if len(lines) > n {
		lines = lines[len(lines)-n:]
	}
	return strings.Join(lines, "\n")
}

// violationConfirmed decides whether the native result reproduces the predicted violation.
func violationConfirmed(v *symgo.Violation, r replayResult) bool {
	switch v.Kind {
	case "assert":
		if strings.HasPrefix(r.Result, "fail:") {
			for _, l := range strings.Split(r.Result[5:], "|") {
				if l == v.Label {
					return true
				}
			}
		}
		return false
	case "panic":
		return strings.HasPrefix(r.Result, "panic:") || strings.Contains(r.Result, "|panic:")
	case "fatal", "deadlock":
		return strings.HasPrefix(r.Result, "fatal:") || r.Result == "timeout" || r.Result == "crash"
	case "nontermination":
		return r.Result == "timeout"
	case "alloc":
		// natively: makeslice panics, the runtime dies of memory exhaustion, or the driver measured the allocation
		return strings.HasPrefix(r.Result, "panic:") || strings.HasPrefix(r.Result, "fatal:") || r.Result == "crash" || strings.Contains(r.Result, "alloc>2^20")
	}
	return false
}

func obsEqual(a, b []symgo.Observation) (bool, string) {
	if len(a) != len(b) {
		return false, fmt.Sprintf("predicted %d observations, native %d", len(a), len(b))
	}
	for i := range a {
		if a[i].Label != b[i].Label {
			return false, fmt.Sprintf("observation %d: label %q vs native %q", i, a[i].Label, b[i].Label)
		}
		if len(a[i].Vals) != len(b[i].Vals) {
			return false, fmt.Sprintf("observation %d (%s): %v vs native %v", i, a[i].Label, a[i].Vals, b[i].Vals)
		}
		for j := range a[i].Vals {
			if a[i].Vals[j] == "<opaque>" || b[i].Vals[j] == "<opaque>" || a[i].Vals[j] == "x<opaque>" {
				continue
			}
			if a[i].Vals[j] != b[i].Vals[j] {
				return false, fmt.Sprintf("observation %d (%s): predicted %v, native %v", i, a[i].Label, a[i].Vals, b[i].Vals)
			}
		}
	}
	return true, ""
}

type runOpts struct {
	tier     string
	solver   string
	workers  int
	only     string
	noReplay bool
	maxPaths int
	progress bool
	minutes  int
	seed     int
}

func cmdRun(prop string, o runOpts) int {
	t0 := time.Now()
	reg, err := loadRegistry()
	if err != nil {
		fmt.Fprintln(os.Stderr, "vcheck:", err)
		return 2
	}
	var p *PropSpec
	for i := range reg.Props {
		if reg.Props[i].ID == prop {
			p = &reg.Props[i]
		}
	}
	if p == nil {
		fmt.Fprintf(os.Stderr, "vcheck: no property %s in registry\n", prop)
		return 2
	}
	known, err := loadKnown()
	if err != nil {
		fmt.Fprintln(os.Stderr, "vcheck:", err)
		return 2
	}
	knownIDs := map[string]bool{}
	var knownList []string
	for _, k := range known {
		if k.Status == "recorded" {
			knownIDs[k.ID] = true
			knownList = append(knownList, k.ID)
		}
	}
	scratch, err := os.MkdirTemp("", "verif-run-")
	if err != nil {
		fmt.Fprintln(os.Stderr, "vcheck:", err)
		return 2
	}
	defer os.RemoveAll(scratch)

	if p.Pretest != "" && !o.noReplay {
		if out, err := nativePretest(p, scratch); err != nil {
			fmt.Fprintf(os.Stderr, "vcheck: native pretest %s failed (exit 2, not a verdict):\n%s\n", p.Pretest, tail(out, 30))
			return 2
		}
		fmt.Fprintf(os.Stderr, "native pretest %s passed\n", p.Pretest)
	}
	ovPaths, err := buildOverlay(p, scratch, false)
	if err != nil {
		fmt.Fprintln(os.Stderr, "vcheck:", err)
		return 2
	}
	overlay := map[string][]byte{}
	for virt, real := range ovPaths {
		data, err := os.ReadFile(real)
		if err != nil {
			fmt.Fprintln(os.Stderr, "vcheck:", err)
			return 2
		}
		overlay[virt] = data
	}
	modRoot := repoDir
	if p.Module != "" {
		modRoot = filepath.Join(repoDir, p.Module)
	}
	tLoad := time.Now()
	ld, err := symgo.Load(modRoot, []string{"./" + p.Dir}, overlay, "verif")
	if err != nil {
		fmt.Fprintf(os.Stderr, "vcheck: cannot load/compile %s with the harness (exit 2, not a verdict):\n%v\n", modRoot, err)
		return 2
	}
	defer ld.Close()
	loadS := time.Since(tLoad).Seconds()

	// the harness package
	var hpkg *ssa.Package
	for _, sp := range ld.Pkgs {
		if sp.Pkg.Name() != p.Package {
			continue
		}
		if obj := sp.Pkg.Scope().Lookup("vReg"); obj != nil {
			hpkg = sp
			break
		}
	}
	if hpkg == nil {
		fmt.Fprintln(os.Stderr, "vcheck: harness package not found after load")
		return 2
	}

	cfg := symgo.ExploreConfig{
		Workers:     o.workers,
		MaxPaths:    o.maxPaths,
		KeepSamples: 4,
		Progress:    o.progress,
		Machine: symgo.Config{
			MaxSteps: 20_000_000, MaxDecisions: 20000, MaxConcrete: 64, SolverKind: o.solver, SolverTimeMs: 20000,
			WantModel: true, ModelEvery: 50, TrackFuncs: true, Known: knownIDs, Tier: o.tier,
		},
	}
	if o.minutes > 0 {
		cfg.Deadline = time.Now().Add(time.Duration(o.minutes) * time.Minute)
	}

	ev := newEvidence(p, o)
	exit := 0
	var allViol []*symgo.Violation
	var modelCases []replayCase
	var modelOwner []string
	funcs := map[string]bool{}
	for _, h := range p.Harnesses {
		if o.only != "" && h.Name != o.only {
			continue
		}
		if len(h.Tiers) > 0 && !contains(h.Tiers, o.tier) {
			continue
		}
		fn := hpkg.Func(h.Name)
		if fn == nil {
			fmt.Fprintf(os.Stderr, "vcheck: harness %s not found in package %s\n", h.Name, p.Package)
			return 2
		}
		c := cfg
		if h.MaxSteps > 0 {
			c.Machine.MaxSteps = h.MaxSteps
		}
		c.Machine.ConcreteHash = h.Concrete
		st, err := symgo.Explore(ld.Prog, fn, []*ssa.Package{hpkg}, c)
		if err != nil {
			fmt.Fprintln(os.Stderr, "vcheck:", err)
			return 2
		}
		fmt.Fprintln(os.Stderr, st.Summary())
		ev.addHarness(h, st, o.tier)
		for f := range st.Funcs {
			funcs[f] = true
		}
		if !st.Clean() || st.Solver.Errors > 0 {
			fmt.Fprintf(os.Stderr, "vcheck: %s: exploration inconclusive (budget/unknown/truncated) — not a pass\n", h.Name)
			exit = 2
		}
		for _, cv := range h.Covers {
			if st.Covers[cv] == 0 {
				fmt.Fprintf(os.Stderr, "vcheck: %s: required coverage label %q never reached (vacuity guard)\n", h.Name, cv)
				exit = 2
			}
		}
		if st.Complete == 0 {
			fmt.Fprintf(os.Stderr, "vcheck: %s: no complete path (vacuous)\n", h.Name)
			exit = 2
		}
		if h.Cross && o.solver == "z3" {
			// diff two solvers: same harness on cvc5 must give the same paths and the same verdicts
			c2 := c
			c2.Machine.SolverKind = "cvc5"
			c2.Machine.WantModel = false
			st2, err2 := symgo.Explore(ld.Prog, fn, []*ssa.Package{hpkg}, c2)
			agree := err2 == nil && st2.Paths == st.Paths && st2.Complete == st.Complete && st2.Assumed == st.Assumed &&
				len(st2.Violations) == len(st.Violations) && st2.Discharged == st.Discharged && st2.Solver.Unknown == 0 && st2.Solver.Errors == 0
			ev.Cross = append(ev.Cross, map[string]interface{}{"harness": h.Name, "second_solver": "cvc5", "paths": st2.Paths, "complete": st2.Complete,
				"discharged": st2.Discharged, "violations": len(st2.Violations), "unsat": st2.Solver.Unsat, "agrees_with_z3": agree})
			if !agree {
				fmt.Fprintf(os.Stderr, "vcheck: %s: SOLVER DISAGREEMENT z3 vs cvc5 (%s | %s) — inconclusive\n", h.Name, st.Summary(), st2.Summary())
				exit = 2
			}
		}
		allViol = append(allViol, st.Violations...)
		for _, v := range st.Violations {
			fmt.Fprintf(os.Stderr, "  symbolic counterexample: %s kind=%s label=%q msg=%q\n", v.Harness, v.Kind, v.Label, v.Msg)
		}
		// spread model samples for translator validation
		k := 8
		if o.tier == "thorough" {
			k = 32
		}
		ms := st.Models
		if len(ms) > k {
			step := len(ms) / k
			var pick []symgo.ModelSample
			for i := 0; i < len(ms) && len(pick) < k; i += step {
				pick = append(pick, ms[i])
			}
			ms = pick
		}
		for _, msample := range ms {
			modelCases = append(modelCases, replayCase{Harness: h.Name, Inputs: msample.Inputs, Known: knownList, Tier: o.tier, Obs: msample.Observed})
			modelOwner = append(modelOwner, h.Name)
		}
	}
	ev.setFuncs(funcs, ld, modRoot)
	symgo.DumpProfile()

	// ---- native replay: violations + validation samples
	var cases []replayCase
	for _, v := range allViol {
		cases = append(cases, replayCase{Harness: v.Harness, Inputs: v.Inputs, Known: knownList, Tier: o.tier,
			Prop: p.ID, Kind: v.Kind, Label: v.Label, Msg: v.Msg})
	}
	nViol := len(cases)
	cases = append(cases, modelCases...)
	confirmed := 0
	knownHits := map[string]bool{}
	if !o.noReplay && len(cases) > 0 {
		results, rlog, err := nativeReplay(p, cases, scratch)
		if err != nil {
			fmt.Fprintln(os.Stderr, "vcheck:", err)
			os.WriteFile(filepath.Join(verifDir, "evidence", p.ID+".replay.log"), []byte(rlog), 0o644)
			return 2
		}
		os.MkdirAll(filepath.Join(verifDir, "replays"), 0o755)
		for i, v := range allViol {
			r := results[i]
			if violationConfirmed(v, r) {
				if kf := matchKnown(known, p.ID, v.Label); kf != nil && kf.Status == "recorded" {
					if !knownHits[kf.ID] {
						knownHits[kf.ID] = true
						fmt.Printf("KNOWN-FINDING: property=%s %s [%s] %s\n", p.ID, kf.ID, v.Harness, kf.What)
					}
					ev.KnownFindings = append(ev.KnownFindings, kf.ID)
					continue
				}
				confirmed++
				path := filepath.Join(verifDir, "replays", fmt.Sprintf("%s-%s-%d.json", p.ID, v.Harness, confirmed))
				cj, _ := json.MarshalIndent(cases[i], "", " ")
				os.WriteFile(path, cj, 0o644)
				fmt.Printf("VIOLATION property=%s replay=%s\n", p.ID, path)
				fmt.Printf("  harness=%s kind=%s label=%q msg=%q native=%q\n", v.Harness, v.Kind, v.Label, v.Msg, r.Result)
				ev.Violations++
				exit1(&exit)
			} else {
				fmt.Fprintf(os.Stderr, "vcheck: MACHINERY: counterexample of %s label %q (%s) did not reproduce natively (native result %q) — executor/stub bug, not reported as a violation\n",
					v.Harness, v.Label, v.Kind, r.Result)
				path := filepath.Join(verifDir, "replays", fmt.Sprintf("%s-%s-unreproduced-%d.json", p.ID, v.Harness, i))
				cj, _ := json.MarshalIndent(cases[i], "", " ")
				os.WriteFile(path, cj, 0o644)
				ev.Unreproduced++
				if exit == 0 {
					exit = 2
				}
			}
		}
		for j := range modelCases {
			r := results[nViol+j]
			// (the allocation marker only matters when a symbolic allocation finding is being confirmed:
			// a legitimately large run, e.g. a 10001-node import, may exceed the driver's threshold)
			res := strings.TrimSuffix(r.Result, " alloc>2^20")
			ok := res == "pass" || onlyFindingLabels(res)
			why := "native result " + r.Result
			if ok {
				ok, why = obsEqual(modelCases[j].Obs, r.Obs)
			}
			if ok {
				ev.Validated++
			} else {
				fmt.Fprintf(os.Stderr, "vcheck: MACHINERY: translator validation failed for %s: %s\n", modelOwner[j], why)
				path := filepath.Join(verifDir, "replays", fmt.Sprintf("%s-%s-validation-%d.json", p.ID, modelOwner[j], j))
				cj, _ := json.MarshalIndent(modelCases[j], "", " ")
				os.WriteFile(path, cj, 0o644)
				ev.ValidationFailed++
				if exit == 0 {
					exit = 2
				}
			}
		}
	} else if len(allViol) > 0 {
		for _, v := range allViol {
			fmt.Fprintf(os.Stderr, "unreplayed violation: %s %s %q %s\n", v.Harness, v.Kind, v.Label, v.Msg)
		}
		if exit == 0 {
			exit = 2
		}
	}
	// recorded findings that did not show up
	for _, k := range known {
		if k.Property == p.ID && k.Status == "recorded" && !knownHits[k.ID] && o.only == "" && harnessTierHasLabel(p, o.tier) {
			fmt.Fprintf(os.Stderr, "vcheck: note: recorded finding %s was not re-found in tier %s\n", k.ID, o.tier)
		}
	}
	ev.LoadS = loadS
	ev.finish(time.Since(t0), exit, o)
	if err := ev.write(); err != nil {
		fmt.Fprintln(os.Stderr, "vcheck:", err)
		return 2
	}
	if exit == 2 {
		fmt.Fprintf(os.Stderr, "vcheck: %s: INCONCLUSIVE / machinery error (exit 2)\n", p.ID)
	}
	return exit
}

// onlyFindingLabels: a native "fail:" result all of whose labels are finding-region labels (F<n>:...).
func onlyFindingLabels(res string) bool {
	if !strings.HasPrefix(res, "fail:") {
		return false
	}
	for _, l := range strings.Split(res[5:], "|") {
		if !regexp.MustCompile(`^F[0-9]+:`).MatchString(l) {
			return false
		}
	}
	return true
}

func harnessTierHasLabel(p *PropSpec, tier string) bool { return true }

func exit1(e *int) { *e = 1 }

func contains(a []string, s string) bool {
	for _, x := range a {
		if x == s {
			return true
		}
	}
	return false
}

func matchKnown(known []KnownFinding, prop, label string) *KnownFinding {
	for i := range known {
		if known[i].Property == prop && known[i].Label == label {
			return &known[i]
		}
	}
	return nil
}

func cmdReplay(path string) int {
	data, err := os.ReadFile(path)
	if err != nil {
		fmt.Fprintln(os.Stderr, err)
		return 2
	}
	var c replayCase
	if err := json.Unmarshal(data, &c); err != nil {
		fmt.Fprintln(os.Stderr, err)
		return 2
	}
	reg, err := loadRegistry()
	if err != nil {
		fmt.Fprintln(os.Stderr, err)
		return 2
	}
	var p *PropSpec
	for i := range reg.Props {
		for _, h := range reg.Props[i].Harnesses {
			if h.Name == c.Harness && (c.Prop == "" || c.Prop == reg.Props[i].ID) {
				p = &reg.Props[i]
			}
		}
	}
	if p == nil {
		fmt.Fprintln(os.Stderr, "no property owns harness", c.Harness)
		return 2
	}
	scratch, _ := os.MkdirTemp("", "verif-replay-")
	defer os.RemoveAll(scratch)
	res, log, err := nativeReplay(p, []replayCase{c}, scratch)
	if err != nil {
		fmt.Fprintln(os.Stderr, err)
		return 2
	}
	fmt.Printf("harness=%s expected kind=%s label=%q\nnative result: %s\n", c.Harness, c.Kind, c.Label, res[0].Result)
	if os.Getenv("VERIF_VERBOSE") != "" {
		fmt.Println(log)
	}
	if res[0].Result == "pass" {
		return 0
	}
	return 1
}

func main() {
	if at := os.Getenv("VERIF_HEAPAT"); at != "" {
		n, _ := strconv.Atoi(at)
		go func() {
			time.Sleep(time.Duration(n) * time.Second)
			f, _ := os.Create("/tmp/heap-during.prof")
			pprof.WriteHeapProfile(f)
			f.Close()
		}()
	}
	debug.SetGCPercent(150)
	debug.SetMemoryLimit(10 << 30)
	if len(os.Args) < 2 {
		fmt.Fprintln(os.Stderr, "usage: vcheck run <PROP> [flags] | replay <path> | selftest")
		os.Exit(2)
	}
	switch os.Args[1] {
	case "run":
		fs := flag.NewFlagSet("run", flag.ExitOnError)
		tier := fs.String("tier", envOr("VERIF_TIER", "quick"), "quick|thorough")
		solver := fs.String("solver", "z3", "z3|z3-new|cvc5")
		workers := fs.Int("workers", runtime.NumCPU(), "parallel workers")
		only := fs.String("harness", "", "run only this harness")
		noReplay := fs.Bool("no-replay", false, "skip native replay (debugging)")
		maxPaths := fs.Int("max-paths", 0, "stop after N paths (run becomes inconclusive)")
		progress := fs.Bool("progress", false, "print progress")
		minutes := fs.Int("minutes", 0, "wall-clock budget per harness (exceeding = inconclusive)")
		if len(os.Args) < 3 {
			fmt.Fprintln(os.Stderr, "usage: vcheck run <PROP>")
			os.Exit(2)
		}
		cpuprof := fs.String("cpuprofile", "", "write CPU profile")
		memprof := fs.String("memprofile", "", "write heap profile at the end")
		fs.Parse(os.Args[3:])
		if *cpuprof != "" {
			f, _ := os.Create(*cpuprof)
			pprof.StartCPUProfile(f)
			defer pprof.StopCPUProfile()
		}
		seed, _ := strconv.Atoi(envOr("VERIF_SEED", "0"))
		code := cmdRun(os.Args[2], runOpts{tier: *tier, solver: *solver, workers: *workers, only: *only, noReplay: *noReplay,
			maxPaths: *maxPaths, progress: *progress, minutes: *minutes, seed: seed})
		pprof.StopCPUProfile()
		if *memprof != "" {
			f, _ := os.Create(*memprof)
			pprof.WriteHeapProfile(f)
			f.Close()
		}
		os.Exit(code)
	case "replay":
		if len(os.Args) < 3 {
			os.Exit(2)
		}
		os.Exit(cmdReplay(os.Args[2]))
	case "selftest":
		os.Exit(cmdSelftest())
	default:
		fmt.Fprintln(os.Stderr, "unknown command", os.Args[1])
		os.Exit(2)
	}
}

var _ = sort.Strings
