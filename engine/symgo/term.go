package symgo

// Hash-consed SMT terms over Bool and (_ BitVec 8|16|32|64) with Go's wrapping
// semantics, plus opaque "hash byte" terms H(tok)[i] (see hash.go).

import (
	"fmt"
	"strconv"
	"strings"
)

type Op uint8

const (
	OpConst Op = iota // BV constant (W>0) or Bool constant (W==0, Val 0/1)
	OpVar
	OpAdd
	OpSub
	OpMul
	OpUDiv
	OpSDiv
	OpURem
	OpSRem
	OpAnd
	OpOr
	OpXor
	OpShl
	OpLShr
	OpAShr
	OpNot // bvnot
	OpNeg
	OpZExt
	OpSExt
	OpTrunc // extract low W bits
	OpIte
	OpEq
	OpUlt
	OpUle
	OpSlt
	OpSle
	OpBNot
	OpBAnd
	OpBOr
	OpHashByte // Val = byte index, Tok = token
)

var opNames = [...]string{"const", "var", "bvadd", "bvsub", "bvmul", "bvudiv", "bvsdiv", "bvurem", "bvsrem",
	"bvand", "bvor", "bvxor", "bvshl", "bvlshr", "bvashr", "bvnot", "bvneg", "zext", "sext", "trunc", "ite",
	"=", "bvult", "bvule", "bvslt", "bvsle", "not", "and", "or", "hashbyte"}

type Term struct {
	Op    Op
	W     uint8 // 0 = Bool
	Val   uint64
	Args  []*Term
	Name  string
	Tok   *Token
	id    int
	epoch int // solver epoch in which this term has been defined
	neg   *Term
}

func (t *Term) IsConst() bool { return t.Op == OpConst }
func (t *Term) IsBool() bool  { return t.W == 0 }
func (t *Term) ID() int       { return t.id }

type Factory struct {
	tab    map[string]*Term
	n      int
	True   *Term
	False  *Term
	toks   map[string]*Token
	ntok   int
	tokEqM map[[2]int]*Term
	Vars   []*Term
	HashOrderUsed int
}

func NewFactory() *Factory {
	f := &Factory{tab: map[string]*Term{}, toks: map[string]*Token{}, tokEqM: map[[2]int]*Term{}}
	f.True = f.mk(&Term{Op: OpConst, W: 0, Val: 1})
	f.False = f.mk(&Term{Op: OpConst, W: 0, Val: 0})
	f.True.neg, f.False.neg = f.False, f.True
	return f
}

func (f *Factory) Size() int { return f.n }

func (f *Factory) mk(t *Term) *Term {
	var sb strings.Builder
	sb.WriteByte(byte(t.Op) + 'A')
	sb.WriteByte(t.W + '0')
	if t.Op == OpConst || t.Op == OpHashByte {
		sb.WriteString(strconv.FormatUint(t.Val, 16))
	}
	if t.Op == OpVar {
		sb.WriteString(t.Name)
	}
	if t.Tok != nil {
		sb.WriteByte('T')
		sb.WriteString(strconv.Itoa(t.Tok.ID))
	}
	for _, a := range t.Args {
		sb.WriteByte(',')
		sb.WriteString(strconv.Itoa(a.id))
	}
	k := sb.String()
	if x, ok := f.tab[k]; ok {
		return x
	}
	f.n++
	t.id = f.n
	f.tab[k] = t
	return t
}

func mask(w uint8) uint64 {
	if w >= 64 {
		return ^uint64(0)
	}
	return (uint64(1) << w) - 1
}

func sext64(v uint64, w uint8) int64 {
	if w >= 64 {
		return int64(v)
	}
	sh := 64 - uint(w)
	return int64(v<<sh) >> sh
}

func (f *Factory) Const(v uint64, w uint8) *Term {
	if w == 0 {
		if v != 0 {
			return f.True
		}
		return f.False
	}
	return f.mk(&Term{Op: OpConst, W: w, Val: v & mask(w)})
}

func (f *Factory) Bool(b bool) *Term {
	if b {
		return f.True
	}
	return f.False
}

func (f *Factory) Var(name string, w uint8) *Term {
	t := &Term{Op: OpVar, W: w, Name: name}
	n0 := f.n
	r := f.mk(t)
	if f.n != n0 {
		f.Vars = append(f.Vars, r)
	}
	return r
}

// ---- boolean connectives

func (f *Factory) Not(a *Term) *Term {
	if a.neg != nil {
		return a.neg
	}
	var r *Term
	switch a.Op {
	case OpBNot:
		r = a.Args[0]
	default:
		r = f.mk(&Term{Op: OpBNot, W: 0, Args: []*Term{a}})
	}
	a.neg = r
	if r.neg == nil {
		r.neg = a
	}
	return r
}

func (f *Factory) And(as ...*Term) *Term {
	var out []*Term
	seen := map[int]bool{}
	for _, a := range as {
		if a.Op == OpBAnd {
			for _, b := range a.Args {
				if b == f.False {
					return f.False
				}
				if !seen[b.id] {
					seen[b.id] = true
					out = append(out, b)
				}
			}
			continue
		}
		if a == f.False {
			return f.False
		}
		if a == f.True || seen[a.id] {
			continue
		}
		seen[a.id] = true
		out = append(out, a)
	}
	for _, a := range out {
		if a.neg != nil && seen[a.neg.id] {
			return f.False
		}
	}
	switch len(out) {
	case 0:
		return f.True
	case 1:
		return out[0]
	}
	return f.mk(&Term{Op: OpBAnd, W: 0, Args: out})
}

func (f *Factory) Or(as ...*Term) *Term {
	var out []*Term
	seen := map[int]bool{}
	for _, a := range as {
		if a.Op == OpBOr {
			for _, b := range a.Args {
				if b == f.True {
					return f.True
				}
				if !seen[b.id] {
					seen[b.id] = true
					out = append(out, b)
				}
			}
			continue
		}
		if a == f.True {
			return f.True
		}
		if a == f.False || seen[a.id] {
			continue
		}
		seen[a.id] = true
		out = append(out, a)
	}
	for _, a := range out {
		if a.neg != nil && seen[a.neg.id] {
			return f.True
		}
	}
	switch len(out) {
	case 0:
		return f.False
	case 1:
		return out[0]
	}
	return f.mk(&Term{Op: OpBOr, W: 0, Args: out})
}

func (f *Factory) Implies(a, b *Term) *Term { return f.Or(f.Not(a), b) }

// constLeafTree reports whether t is a constant or an ite tree (depth-limited) whose leaves are constants.
func constLeafTree(t *Term, depth int) bool {
	if t.Op == OpConst {
		return true
	}
	if t.Op == OpIte && depth > 0 {
		return constLeafTree(t.Args[1], depth-1) && constLeafTree(t.Args[2], depth-1)
	}
	return false
}

func (f *Factory) mapLeaves(t *Term, fn func(*Term) *Term) *Term {
	if t.Op == OpIte {
		return f.Ite(t.Args[0], f.mapLeaves(t.Args[1], fn), f.mapLeaves(t.Args[2], fn))
	}
	return fn(t)
}

func (f *Factory) Ite(c, a, b *Term) *Term {
	if c == f.True {
		return a
	}
	if c == f.False {
		return b
	}
	if a == b {
		return a
	}
	if a.W == 0 {
		// boolean ite
		switch {
		case a == f.True && b == f.False:
			return c
		case a == f.False && b == f.True:
			return f.Not(c)
		case a == f.True:
			return f.Or(c, b)
		case a == f.False:
			return f.And(f.Not(c), b)
		case b == f.True:
			return f.Or(f.Not(c), a)
		case b == f.False:
			return f.And(c, a)
		}
	}
	if c.Op == OpBNot {
		return f.Ite(c.Args[0], b, a)
	}
	return f.mk(&Term{Op: OpIte, W: a.W, Args: []*Term{c, a, b}})
}

// ---- bit-vector operations

func foldBin(op Op, x, y uint64, w uint8) (uint64, bool) {
	m := mask(w)
	x &= m
	y &= m
	switch op {
	case OpAdd:
		return (x + y) & m, true
	case OpSub:
		return (x - y) & m, true
	case OpMul:
		return (x * y) & m, true
	case OpUDiv:
		if y == 0 {
			return m, true
		}
		return x / y, true
	case OpURem:
		if y == 0 {
			return x, true
		}
		return x % y, true
	case OpSDiv:
		if y == 0 {
			return 0, false
		}
		a, b := sext64(x, w), sext64(y, w)
		if b == -1 {
			return uint64(-a) & m, true
		}
		return uint64(a/b) & m, true
	case OpSRem:
		if y == 0 {
			return 0, false
		}
		a, b := sext64(x, w), sext64(y, w)
		if b == -1 {
			return 0, true
		}
		return uint64(a%b) & m, true
	case OpAnd:
		return x & y, true
	case OpOr:
		return x | y, true
	case OpXor:
		return x ^ y, true
	case OpShl:
		if y >= uint64(w) {
			return 0, true
		}
		return (x << y) & m, true
	case OpLShr:
		if y >= uint64(w) {
			return 0, true
		}
		return x >> y, true
	case OpAShr:
		a := sext64(x, w)
		if y >= uint64(w) {
			y = uint64(w) - 1
		}
		return uint64(a>>y) & m, true
	}
	return 0, false
}

func (f *Factory) Bin(op Op, a, b *Term) *Term {
	if a.W != b.W {
		panic(fmt.Sprintf("symgo: internal: term width mismatch %s: %d vs %d", opNames[op], a.W, b.W))
	}
	w := a.W
	if a.Op == OpConst && b.Op == OpConst {
		if v, ok := foldBin(op, a.Val, b.Val, w); ok {
			return f.Const(v, w)
		}
	}
	// identities
	switch op {
	case OpAdd:
		if a.Op == OpConst && a.Val == 0 {
			return b
		}
		if b.Op == OpConst && b.Val == 0 {
			return a
		}
		if a.Op == OpConst { // canonical: constant on the right
			a, b = b, a
		}
	case OpSub:
		if b.Op == OpConst && b.Val == 0 {
			return a
		}
		if a == b {
			return f.Const(0, w)
		}
	case OpMul:
		if a.Op == OpConst {
			a, b = b, a
		}
		if b.Op == OpConst {
			if b.Val == 0 {
				return b
			}
			if b.Val == 1 {
				return a
			}
		}
	case OpAnd:
		if a.Op == OpConst {
			a, b = b, a
		}
		if b.Op == OpConst {
			if b.Val == 0 {
				return b
			}
			if b.Val == mask(w) {
				return a
			}
		}
		if a == b {
			return a
		}
	case OpOr:
		if a.Op == OpConst {
			a, b = b, a
		}
		if b.Op == OpConst {
			if b.Val == 0 {
				return a
			}
			if b.Val == mask(w) {
				return b
			}
		}
		if a == b {
			return a
		}
	case OpXor:
		if a.Op == OpConst {
			a, b = b, a
		}
		if b.Op == OpConst && b.Val == 0 {
			return a
		}
		if a == b {
			return f.Const(0, w)
		}
	case OpShl, OpLShr, OpAShr:
		if b.Op == OpConst && b.Val == 0 {
			return a
		}
		if b.Op == OpConst && b.Val >= uint64(w) && op != OpAShr {
			return f.Const(0, w)
		}
	}
	// push through ite trees with constant leaves
	if b.Op == OpConst && a.Op == OpIte && constLeafTree(a, 6) {
		return f.mapLeaves(a, func(l *Term) *Term { return f.Bin(op, l, b) })
	}
	if a.Op == OpConst && b.Op == OpIte && constLeafTree(b, 6) {
		return f.mapLeaves(b, func(l *Term) *Term { return f.Bin(op, a, l) })
	}
	return f.mk(&Term{Op: op, W: w, Args: []*Term{a, b}})
}

func (f *Factory) Un(op Op, a *Term) *Term {
	if a.Op == OpConst {
		switch op {
		case OpNot:
			return f.Const(^a.Val, a.W)
		case OpNeg:
			return f.Const(-a.Val, a.W)
		}
	}
	if a.Op == op {
		return a.Args[0]
	}
	if a.Op == OpIte && constLeafTree(a, 6) {
		return f.mapLeaves(a, func(l *Term) *Term { return f.Un(op, l) })
	}
	return f.mk(&Term{Op: op, W: a.W, Args: []*Term{a}})
}

// Resize converts a to width w (zero- or sign-extending, or truncating).
func (f *Factory) Resize(a *Term, w uint8, signed bool) *Term {
	if a.W == 0 {
		panic("resize of bool")
	}
	if a.W == w {
		return a
	}
	if a.Op == OpConst {
		if w < a.W {
			return f.Const(a.Val, w)
		}
		if signed {
			return f.Const(uint64(sext64(a.Val, a.W)), w)
		}
		return f.Const(a.Val, w)
	}
	if a.Op == OpIte && constLeafTree(a, 6) {
		return f.mapLeaves(a, func(l *Term) *Term { return f.Resize(l, w, signed) })
	}
	if w < a.W {
		// trunc(ext(x)) simplifications
		if a.Op == OpZExt || a.Op == OpSExt {
			in := a.Args[0]
			if in.W == w {
				return in
			}
			if in.W > w {
				return f.Resize(in, w, false)
			}
			return f.Resize(in, w, a.Op == OpSExt)
		}
		return f.mk(&Term{Op: OpTrunc, W: w, Args: []*Term{a}})
	}
	if signed {
		if a.Op == OpZExt { // sext(zext(x)) == zext(x) since top bit is 0
			return f.mk(&Term{Op: OpZExt, W: w, Args: []*Term{a.Args[0]}})
		}
		if a.Op == OpSExt {
			return f.mk(&Term{Op: OpSExt, W: w, Args: []*Term{a.Args[0]}})
		}
		return f.mk(&Term{Op: OpSExt, W: w, Args: []*Term{a}})
	}
	if a.Op == OpZExt {
		return f.mk(&Term{Op: OpZExt, W: w, Args: []*Term{a.Args[0]}})
	}
	return f.mk(&Term{Op: OpZExt, W: w, Args: []*Term{a}})
}

func foldCmp(op Op, x, y uint64, w uint8) bool {
	switch op {
	case OpEq:
		return x == y
	case OpUlt:
		return x < y
	case OpUle:
		return x <= y
	case OpSlt:
		return sext64(x, w) < sext64(y, w)
	case OpSle:
		return sext64(x, w) <= sext64(y, w)
	}
	panic("foldCmp")
}

// Cmp builds a comparison (OpEq, OpUlt, OpUle, OpSlt, OpSle).
func (f *Factory) Cmp(op Op, a, b *Term) *Term {
	if a.W != b.W {
		panic(fmt.Sprintf("symgo: internal: cmp width mismatch %d vs %d", a.W, b.W))
	}
	if a.W == 0 {
		if op != OpEq {
			panic("ordered comparison of bools")
		}
		if a == b {
			return f.True
		}
		if a.Op == OpConst {
			a, b = b, a
		}
		if b == f.True {
			return a
		}
		if b == f.False {
			return f.Not(a)
		}
		if a.neg == b {
			return f.False
		}
		if a.id > b.id {
			a, b = b, a
		}
		return f.mk(&Term{Op: OpEq, W: 0, Args: []*Term{a, b}})
	}
	if a.Op == OpConst && b.Op == OpConst {
		return f.Bool(foldCmp(op, a.Val, b.Val, a.W))
	}
	if a == b {
		return f.Bool(op == OpEq || op == OpUle || op == OpSle)
	}
	// ite trees with constant leaves against a constant
	if b.Op == OpConst && a.Op == OpIte && constLeafTree(a, 8) {
		return f.mapLeaves(a, func(l *Term) *Term { return f.Cmp(op, l, b) })
	}
	if a.Op == OpConst && b.Op == OpIte && constLeafTree(b, 8) {
		return f.mapLeaves(b, func(l *Term) *Term { return f.Cmp(op, a, l) })
	}
	// hash bytes
	if op == OpEq && a.Op == OpHashByte && b.Op == OpHashByte {
		if a.Tok == b.Tok {
			if a.Val == b.Val {
				return f.True
			}
		} else if a.Val == b.Val {
			return f.TokEq(a.Tok, b.Tok)
		}
	}
	// Ordering of hash bytes (only needed when hash-keyed legacy records sit in the ordered store, C16):
	// distinct digests are ordered by token creation order. Equality stays exact (TokEq); the order is
	// one fixed representative of the possible orders (stated as outside the claim: other hash orders).
	if (op == OpUlt || op == OpUle) && a.Op == OpHashByte && b.Op == OpHashByte && a.Val == b.Val {
		f.HashOrderUsed++
		eq := f.TokEq(a.Tok, b.Tok)
		lt := f.And(f.Not(eq), f.Bool(a.Tok.ID < b.Tok.ID))
		if op == OpUlt {
			return lt
		}
		return f.Or(lt, eq)
	}
	// zero-extended operands
	if a.Op == OpZExt && b.Op == OpZExt && a.Args[0].W == b.Args[0].W {
		switch op {
		case OpEq, OpUlt, OpUle:
			return f.Cmp(op, a.Args[0], b.Args[0])
		case OpSlt:
			return f.Cmp(OpUlt, a.Args[0], b.Args[0])
		case OpSle:
			return f.Cmp(OpUle, a.Args[0], b.Args[0])
		}
	}
	if a.Op == OpZExt && b.Op == OpConst {
		in := a.Args[0]
		if b.Val <= mask(in.W) {
			c := f.Const(b.Val, in.W)
			switch op {
			case OpEq, OpUlt, OpUle:
				return f.Cmp(op, in, c)
			case OpSlt:
				return f.Cmp(OpUlt, in, c)
			case OpSle:
				return f.Cmp(OpUle, in, c)
			}
		} else if sext64(b.Val, b.W) >= 0 {
			// constant above the range of the inner value
			switch op {
			case OpEq:
				return f.False
			default:
				return f.True
			}
		}
	}
	if b.Op == OpZExt && a.Op == OpConst {
		in := b.Args[0]
		if a.Val <= mask(in.W) {
			c := f.Const(a.Val, in.W)
			switch op {
			case OpEq, OpUlt, OpUle:
				return f.Cmp(op, c, in)
			case OpSlt:
				return f.Cmp(OpUlt, c, in)
			case OpSle:
				return f.Cmp(OpUle, c, in)
			}
		} else if sext64(a.Val, a.W) >= 0 {
			switch op {
			case OpEq:
				return f.False
			default:
				return f.False
			}
		}
	}
	if op == OpEq && a.id > b.id {
		a, b = b, a
	}
	return f.mk(&Term{Op: op, W: 0, Args: []*Term{a, b}})
}

func (f *Factory) Eq(a, b *Term) *Term { return f.Cmp(OpEq, a, b) }

// ---- printing

func sortName(w uint8) string {
	if w == 0 {
		return "Bool"
	}
	return fmt.Sprintf("(_ BitVec %d)", w)
}

func (t *Term) smtName() string {
	switch t.Op {
	case OpConst:
		if t.W == 0 {
			if t.Val != 0 {
				return "true"
			}
			return "false"
		}
		return fmt.Sprintf("(_ bv%d %d)", t.Val, t.W)
	case OpVar:
		return t.Name
	case OpHashByte:
		return fmt.Sprintf("hb_%d_%d", t.Tok.ID, t.Val)
	}
	return "t" + strconv.Itoa(t.id)
}

func (t *Term) smtBody() string {
	var sb strings.Builder
	switch t.Op {
	case OpZExt:
		fmt.Fprintf(&sb, "((_ zero_extend %d) %s)", t.W-t.Args[0].W, t.Args[0].smtName())
	case OpSExt:
		fmt.Fprintf(&sb, "((_ sign_extend %d) %s)", t.W-t.Args[0].W, t.Args[0].smtName())
	case OpTrunc:
		fmt.Fprintf(&sb, "((_ extract %d 0) %s)", t.W-1, t.Args[0].smtName())
	default:
		sb.WriteByte('(')
		sb.WriteString(opNames[t.Op])
		for _, a := range t.Args {
			sb.WriteByte(' ')
			sb.WriteString(a.smtName())
		}
		sb.WriteByte(')')
	}
	return sb.String()
}

// String gives a readable, fully expanded form (for diagnostics only).
func (t *Term) String() string {
	return t.str(0)
}

func (t *Term) str(d int) string {
	if d > 12 {
		return "..."
	}
	switch t.Op {
	case OpConst, OpVar, OpHashByte:
		if t.Op == OpConst && t.W > 0 {
			return fmt.Sprintf("%d", t.Val)
		}
		return t.smtName()
	}
	var sb strings.Builder
	sb.WriteByte('(')
	sb.WriteString(opNames[t.Op])
	for _, a := range t.Args {
		sb.WriteByte(' ')
		sb.WriteString(a.str(d + 1))
	}
	sb.WriteByte(')')
	return sb.String()
}
