package symgo

// Machine: one interpreter + one solver + the state of the path being executed.
// Forking is by deterministic replay: a path is identified by its trace of decisions.

import (
	"fmt"
	"go/types"
	"os"
	"sort"
	"strings"
	"time"

	"golang.org/x/tools/go/ssa"
)

// Dec is one element of a trace.
type Dec struct {
	Kind   byte  // 'b' branch, 'c' choice, 'v' concretised value, 'a' assume, 's' assert
	Val    int64 // branch: 0/1; choice: index; value: the integer; assert: 1 held, 0 violated
	Forced bool  // outcome implied by the path condition (no literal needs asserting)
}

type pathAbort struct {
	reason string // "assume", "budget:<what>", "inconclusive:<what>", "killed", "stop"
}

// Input is one value handed to the harness by a v-function, in call order.
type Input struct {
	Kind string // byte, int64, bool, choice, intrange
	Tag  string
	T    *Term // nil for choices
	K    types.BasicKind
	Val  int64 // choices: value taken
}

type Violation struct {
	Harness  string
	Label    string
	Kind     string // assert, panic, deadlock, fatal, nontermination
	Msg      string
	Inputs   []ReplayInput
	Trace    []Dec
	Observed []Observation
	Where    string
}

type ReplayInput struct {
	Kind string `json:"kind"`
	Tag  string `json:"tag"`
	Val  int64  `json:"val"`
}

type Observation struct {
	Label string   `json:"label"`
	Vals  []string `json:"vals"`
}

type PathResult struct {
	Complete    bool
	Outcome     string // ok, assume, budget:…, inconclusive:…, panic:…
	Violations  []*Violation
	Covers      map[string]bool
	Steps       int
	Decisions   int
	NewTasks    [][]Dec
	Asserts     int // assertion sites evaluated on the new (non-replayed) part
	Discharged  int
	Trivial     int
	Sample      *Sample
	Funcs       map[string]bool
	Imprecise   int
	ModelInputs []ReplayInput // a model of the complete path (for translator validation)
	Observed    []Observation
	Allocated   int
}

type Sample struct {
	Inputs []ReplayInput `json:"inputs"`
	Steps  int           `json:"steps"`
}

type Config struct {
	MaxSteps     int
	MaxDecisions int
	MaxConcrete  int
	SolverKind   string
	SolverTimeMs int
	WantModel    bool // produce a model of each complete path (costs one query)
	TrackFuncs   bool
	Debug        bool
	ConcreteHash bool            // compute real SHA-256 for fully concrete preimages (selftest)
	Known        map[string]bool // known-finding ids (vKnown)
	Tier         string
	ModelEvery   int // produce a model for every k-th complete path (and the first 64)
}

type Machine struct {
	prog    *ssa.Program
	cfg     Config
	F       *Factory
	S       *Solver
	globals map[*ssa.Global]*value
	sizes   types.Sizes

	// per path
	trace      []Dec
	pos        int
	out        []Dec
	known      map[*Term]bool
	steps      int
	inputs     []Input
	res        *PathResult
	harness    string
	sideMutex  map[*value]*lockState
	sideMap    map[*value]*amap
	sideOnce   map[*value]bool
	sideWG     map[*value]*int
	sched      *scheduler
	dead       bool
	funcsSeen  map[*ssa.Function]bool
	observed   []Observation
	depth      int
	fninfo     map[*ssa.Function]*fnInfo
	rtErrStr   types.Type
	imprecise  int
	initDone   map[*ssa.Package]bool
	harnessPkg *ssa.Package
	locksHeld  int
	sideHash   map[*value]*hashState
	sideCtx    map[*value]*ctxState
	backings   []backing
	ring       [16]backing
	ringPos    int
	allocated  int
	pendingObs []pendingObs
	pathNo     int
	region     string
	curFrame   *frame
}

func NewMachine(prog *ssa.Program, cfg Config) (*Machine, error) {
	s, err := NewSolver(cfg.SolverKind, cfg.SolverTimeMs)
	if err != nil {
		return nil, err
	}
	m := &Machine{prog: prog, cfg: cfg, S: s, sizes: &types.StdSizes{WordSize: 8, MaxAlign: 8}, fninfo: map[*ssa.Function]*fnInfo{}}
	if rt := prog.ImportedPackage("runtime"); rt != nil {
		m.rtErrStr = rt.Type("errorString").Object().Type()
	}
	return m, nil
}

func (m *Machine) Close() { m.S.Close() }

func (m *Machine) abort(reason string) {
	panic(pathAbort{reason})
}

// learn records the truth value of c (and of its obvious consequences) for this path.
func (m *Machine) learn(c *Term, val bool) {
	m.known[c] = val
	m.known[m.F.Not(c)] = !val
	if val && c.Op == OpBAnd {
		for _, a := range c.Args {
			m.learn(a, true)
		}
	}
	if !val && c.Op == OpBOr {
		for _, a := range c.Args {
			m.learn(a, false)
		}
	}
	if c.Op == OpBNot {
		in := c.Args[0]
		if _, ok := m.known[in]; !ok {
			m.learn(in, !val)
		}
	}
}

// lookupKnown evaluates c under the facts known on this path (three-valued: known true, known
// false, unknown), looking through not/and/or without consulting the solver.
func (m *Machine) lookupKnown(c *Term) (bool, bool) {
	return m.evalKnown(c, 0)
}

func (m *Machine) evalKnown(c *Term, depth int) (bool, bool) {
	if c.Op == OpConst {
		return c.Val != 0, true
	}
	if v, ok := m.known[c]; ok {
		return v, true
	}
	if depth > 6 {
		return false, false
	}
	switch c.Op {
	case OpBNot:
		v, ok := m.evalKnown(c.Args[0], depth+1)
		return !v, ok
	case OpBAnd:
		all := true
		for _, a := range c.Args {
			v, ok := m.evalKnown(a, depth+1)
			if ok && !v {
				return false, true
			}
			if !ok {
				all = false
			}
		}
		if all {
			return true, true
		}
	case OpBOr:
		all := true
		for _, a := range c.Args {
			v, ok := m.evalKnown(a, depth+1)
			if ok && v {
				return true, true
			}
			if !ok {
				all = false
			}
		}
		if all {
			return false, true
		}
	}
	return false, false
}

func (m *Machine) check(extra *Term) Result {
	t0 := time.Now()
	r := m.S.Check(extra)
	if slowQ && time.Since(t0) > 500*time.Millisecond {
		fmt.Fprintf(os.Stderr, "SLOWQ %.1fs %v term=%s\n  at %s\n", time.Since(t0).Seconds(), r, clip(extra.String(), 600), m.where())
	}
	if r == Unknown {
		m.abort("inconclusive:solver " + m.S.LastErr)
	}
	if m.S.Stats.Errors > 0 {
		m.abort("inconclusive:solver error " + m.S.LastErr)
	}
	return r
}

func (m *Machine) replayDec(kind byte) (Dec, bool) {
	if m.pos < len(m.trace) {
		d := m.trace[m.pos]
		m.pos++
		if d.Kind != kind {
			panic(fmt.Sprintf("symgo: replay divergence at decision %d: trace has %c, execution wants %c", m.pos-1, d.Kind, kind))
		}
		m.out = append(m.out, d)
		return d, true
	}
	if len(m.out) >= m.cfg.MaxDecisions {
		m.abort("budget:decisions")
	}
	return Dec{}, false
}

func (m *Machine) fork(alt Dec) {
	t := make([]Dec, len(m.out)+1)
	copy(t, m.out)
	t[len(m.out)] = alt
	m.res.NewTasks = append(m.res.NewTasks, t)
}

// decide returns the truth value of c on this path, forking when both are feasible.
func (m *Machine) decide(c *Term) bool {
	if c.Op == OpConst {
		return c.Val != 0
	}
	if v, ok := m.lookupKnown(c); ok {
		return v
	}
	if d, ok := m.replayDec('b'); ok {
		val := d.Val == 1
		if !d.Forced {
			if val {
				m.S.Assert(c)
			} else {
				m.S.Assert(m.F.Not(c))
			}
		}
		m.learn(c, val)
		return val
	}
	if m.check(c) == Unsat {
		m.out = append(m.out, Dec{Kind: 'b', Val: 0, Forced: true})
		m.learn(c, false)
		return false
	}
	nc := m.F.Not(c)
	if m.check(nc) == Unsat {
		m.out = append(m.out, Dec{Kind: 'b', Val: 1, Forced: true})
		m.learn(c, true)
		return true
	}
	m.fork(Dec{Kind: 'b', Val: 0})
	m.out = append(m.out, Dec{Kind: 'b', Val: 1})
	m.S.Assert(c)
	m.learn(c, true)
	return true
}

// truth decides a Go bool value.
func (m *Machine) truth(v value) bool {
	switch b := v.(type) {
	case bool:
		return b
	case *Sym:
		return m.decide(b.T)
	}
	panic(fmt.Sprintf("symgo: internal: truth: not a bool: %T", v))
}

// choose is a nondeterministic choice in [0,n): all alternatives are explored.
func (m *Machine) choose(n int) int {
	if n <= 0 {
		m.abort("assume")
	}
	if d, ok := m.replayDec('c'); ok {
		return int(d.Val)
	}
	for i := n - 1; i >= 1; i-- {
		m.fork(Dec{Kind: 'c', Val: int64(i)})
	}
	m.out = append(m.out, Dec{Kind: 'c', Val: 0})
	return 0
}

// concretize turns a symbolic integer into a concrete one, forking over every feasible value.
func (m *Machine) concretize(v value) int64 {
	s, ok := v.(*Sym)
	if !ok {
		return asInt64(v)
	}
	signed := kindSigned(s.K)
	w := s.T.W
	toInt := func(bits uint64) int64 {
		if signed {
			return sext64(bits, w)
		}
		return int64(bits)
	}
	if d, ok := m.replayDec('v'); ok {
		if !d.Forced {
			m.S.Assert(m.F.Eq(s.T, m.F.Const(uint64(d.Val), w)))
		}
		m.learn(m.F.Eq(s.T, m.F.Const(uint64(d.Val), w)), true)
		return d.Val
	}
	var vals []uint64
	block := m.F.True
	for {
		r, model := m.S.CheckModel(block, []*Term{s.T})
		if r == Unknown || model == nil && r == Sat {
			m.abort("inconclusive:concretize " + m.S.LastErr)
		}
		if r == Unsat {
			break
		}
		x := model[s.T]
		vals = append(vals, x)
		if len(vals) > m.cfg.MaxConcrete {
			m.abort("budget:concretize")
		}
		block = m.F.And(block, m.F.Not(m.F.Eq(s.T, m.F.Const(x, w))))
	}
	if len(vals) == 0 {
		m.abort("inconclusive:concretize found no value")
	}
	sort.Slice(vals, func(i, j int) bool { return vals[i] < vals[j] })
	forced := len(vals) == 1
	for i := len(vals) - 1; i >= 1; i-- {
		m.fork(Dec{Kind: 'v', Val: toInt(vals[i])})
	}
	first := toInt(vals[0])
	m.out = append(m.out, Dec{Kind: 'v', Val: first, Forced: forced})
	eq := m.F.Eq(s.T, m.F.Const(vals[0], w))
	if !forced {
		m.S.Assert(eq)
	}
	m.learn(eq, true)
	return first
}

// assume restricts the path to c.
func (m *Machine) assume(v value) {
	switch b := v.(type) {
	case bool:
		if !b {
			m.abort("assume")
		}
		return
	case *Sym:
		c := b.T
		if kv, ok := m.lookupKnown(c); ok {
			if !kv {
				m.abort("assume")
			}
			return
		}
		if d, ok := m.replayDec('a'); ok {
			if !d.Forced {
				m.S.Assert(c)
			}
			m.learn(c, true)
			return
		}
		if m.check(c) == Unsat {
			m.abort("assume")
		}
		m.out = append(m.out, Dec{Kind: 'a', Val: 1})
		m.S.Assert(c)
		m.learn(c, true)
		return
	}
	panic(fmt.Sprintf("symgo: internal: vAssume: not a bool: %T", v))
}

func (m *Machine) inputVars() []*Term {
	var vs []*Term
	for _, in := range m.inputs {
		if in.T != nil {
			vs = append(vs, in.T)
		}
	}
	return vs
}

func (m *Machine) replayInputs(model map[*Term]uint64) []ReplayInput {
	out := make([]ReplayInput, 0, len(m.inputs))
	for _, in := range m.inputs {
		ri := ReplayInput{Kind: in.Kind, Tag: in.Tag, Val: in.Val}
		if in.T != nil {
			bits := model[in.T]
			if in.T.W > 0 && kindSigned(in.K) {
				ri.Val = sext64(bits, in.T.W)
			} else {
				ri.Val = int64(bits)
			}
		}
		out = append(out, ri)
	}
	return out
}

func (m *Machine) addViolation(kind, label, msg string, extra *Term) {
	r, model := m.S.CheckModel(extra, m.inputVars())
	if r != Sat {
		if r == Unknown {
			m.abort("inconclusive:model for violation " + m.S.LastErr)
		}
		return // not feasible after all
	}
	v := &Violation{Harness: m.harness, Label: label, Kind: kind, Msg: msg, Inputs: m.replayInputs(model),
		Trace: append([]Dec(nil), m.out...), Observed: append([]Observation(nil), m.observed...)}
	m.res.Violations = append(m.res.Violations, v)
}

// assertV implements vAssert.
func (m *Machine) assertV(v value, label string) {
	switch b := v.(type) {
	case bool:
		if d, ok := m.replayDec('s'); ok {
			_ = d
			if !b && !isFindingLabel(label) {
				m.abort("stop") // the violating path ended here the first time as well
			}
			return
		}
		m.res.Asserts++
		if b {
			m.res.Trivial++
			m.res.Discharged++
			m.out = append(m.out, Dec{Kind: 's', Val: 1, Forced: true})
			return
		}
		m.out = append(m.out, Dec{Kind: 's', Val: 0, Forced: true})
		m.addViolation("assert", label, "assertion is false on every input of this path", nil)
		if isFindingLabel(label) {
			return // region of a recorded finding: keep checking the rest of the path
		}
		m.abort("stop")
	case *Sym:
		c := b.T
		if kv, ok := m.lookupKnown(c); ok && kv {
			if m.pos >= len(m.trace) {
				m.res.Asserts++
				m.res.Discharged++
				m.res.Trivial++
			}
			return
		}
		if d, ok := m.replayDec('s'); ok {
			if !d.Forced {
				m.S.Assert(c)
			}
			m.learn(c, true)
			return
		}
		m.res.Asserts++
		nc := m.F.Not(c)
		r := m.check(nc)
		if r == Unsat {
			m.res.Discharged++
			m.out = append(m.out, Dec{Kind: 's', Val: 1, Forced: true})
			m.learn(c, true)
			return
		}
		m.addViolation("assert", label, "assertion can be false", nc)
		// continue with the inputs that satisfy the assertion, if any
		if m.check(c) == Unsat {
			m.out = append(m.out, Dec{Kind: 's', Val: 0, Forced: true})
			m.abort("stop")
		}
		m.out = append(m.out, Dec{Kind: 's', Val: 0})
		m.S.Assert(c)
		m.learn(c, true)
	default:
		panic(fmt.Sprintf("symgo: internal: vAssert: not a bool: %T", v))
	}
}

// RunPath executes harness fn along trace.
func (m *Machine) RunPath(fn *ssa.Function, initPkgs []*ssa.Package, trace []Dec) (res *PathResult) {
	if m.F == nil || m.F.Size() > 40000 {
		m.F = NewFactory()
	}
	m.S.Reset()
	// recycled register files are never cleared: drop them between paths so that they cannot keep the
	// previous path's heap alive
	for _, fi := range m.fninfo {
		fi.free = nil
	}
	m.pathNo++
	if m.cfg.ModelEvery <= 0 {
		m.cfg.ModelEvery = 1
	}
	m.trace = trace
	m.pos = 0
	m.out = m.out[:0]
	m.known = map[*Term]bool{}
	m.steps = 0
	m.inputs = nil
	m.observed = nil
	m.harness = fn.Name()
	m.harnessPkg = fn.Pkg
	m.sideMutex = map[*value]*lockState{}
	m.sideMap = map[*value]*amap{}
	m.sideOnce = map[*value]bool{}
	m.sideWG = map[*value]*int{}
	m.sideHash = map[*value]*hashState{}
	m.sideCtx = map[*value]*ctxState{}
	m.backings = nil
	m.allocated = 0
	m.pendingObs = nil
	m.region = ""
	m.dead = false
	m.imprecise = 0
	m.initDone = map[*ssa.Package]bool{}
	m.locksHeld = 0
	m.res = &PathResult{Covers: map[string]bool{}}
	if m.cfg.TrackFuncs {
		m.funcsSeen = map[*ssa.Function]bool{}
	}
	res = m.res
	m.globals = make(map[*ssa.Global]*value) // allocated lazily on first access
	m.sched = newScheduler(m)
	defer func() {
		m.sched.killAll()
		res.Steps = m.steps
		res.Decisions = len(m.out)
		res.Imprecise = m.imprecise
		res.Observed = m.observed
		res.Allocated = m.allocated
		if m.cfg.TrackFuncs {
			res.Funcs = map[string]bool{}
			for f := range m.funcsSeen {
				res.Funcs[f.String()] = true
			}
		}
	}()
	outcome := m.sched.runMain(func() {
		for _, p := range initPkgs {
			m.runInit(p)
		}
		call(m, nil, fn.Pos(), fn, nil)
	})
	switch o := outcome.(type) {
	case nil:
		res.Complete = true
		res.Outcome = "ok"
		if m.pos < len(m.trace) {
			panic(fmt.Sprintf("symgo: replay divergence: path ended with %d unused trace elements", len(m.trace)-m.pos))
		}
		if m.cfg.WantModel && (m.pathNo <= 6 || m.pathNo%m.cfg.ModelEvery == 0) {
			vars := append(m.inputVars(), m.obsTerms()...)
			r, model := m.S.CheckModel(nil, vars)
			if r == Sat && model != nil {
				res.ModelInputs = m.replayInputs(model)
				res.Sample = &Sample{Inputs: res.ModelInputs, Steps: m.steps}
				m.observed = m.renderObs(model)
			} else if r != Sat {
				res.Complete = false
				res.Outcome = "inconclusive:final model " + r.String()
			}
		}
	case pathAbort:
		res.Outcome = o.reason
		if o.reason == "stop" || o.reason == "assume" {
			// regular end of a path (violating path, or excluded by an assumption)
			res.Complete = o.reason == "stop"
		}
	case targetPanic:
		msg := panicString(m, o.v)
		res.Outcome = "panic:" + msg
		res.Complete = true
		m.safeViolation("panic", "no-panic", msg)
	case string:
		res.Outcome = "panic:" + o
		res.Complete = true
		m.safeViolation("panic", "no-panic", o)
	case allocPanic:
		res.Outcome = "panic:alloc " + o.msg
		res.Complete = true
		m.safeViolation("alloc", "bounded-allocation", o.msg)
	case fatalError:
		res.Outcome = "fatal:" + o.msg
		res.Complete = true
		m.safeViolation("fatal", "no-fatal", o.msg)
	case error:
		res.Outcome = "panic:" + o.Error()
		res.Complete = true
		m.safeViolation("panic", "no-panic", o.Error())
	default:
		res.Outcome = fmt.Sprintf("panic:%v", o)
		res.Complete = true
		m.safeViolation("panic", "no-panic", fmt.Sprint(o))
	}
	return res
}

func (m *Machine) safeViolation(kind, label, msg string) {
	defer func() {
		if r := recover(); r != nil {
			if pa, ok := r.(pathAbort); ok {
				m.res.Complete = false
				m.res.Outcome = pa.reason
				return
			}
			panic(r)
		}
	}()
	if strings.HasPrefix(msg, "symgo:") {
		// interpreter limitation, not a property violation
		m.res.Complete = false
		m.res.Outcome = "inconclusive:" + msg
		return
	}
	m.addViolation(kind, label, msg, nil)
}

type fatalError struct{ msg string }

var slowQ = os.Getenv("VERIF_SLOWQ") != ""

func clip(s string, n int) string {
	if len(s) > n {
		return s[:n] + "…"
	}
	return s
}

func (m *Machine) where() string {
	if m.curFrame == nil {
		return "?"
	}
	return targetStack(m.curFrame)
}

func panicString(m *Machine, v value) string {
	if itf, ok := v.(iface); ok {
		if itf.t == nil {
			return "nil"
		}
		switch x := itf.v.(type) {
		case string:
			return x
		}
		// error values: try Error()
		if meth := m.findMethod(itf.t, "Error"); meth != nil {
			var s string
			func() {
				defer func() {
					if r := recover(); r != nil {
						s = fmt.Sprintf("<%s>", itf.t)
					}
				}()
				r := call(m, nil, 0, meth, []value{itf.v})
				if rs, ok := r.(string); ok {
					s = rs
				} else {
					s = toString(r)
				}
			}()
			return s
		}
		return fmt.Sprintf("%s: %s", itf.t, toString(itf.v))
	}
	return toString(v)
}

func (m *Machine) findMethod(t types.Type, name string) *ssa.Function {
	ms := m.prog.MethodSets.MethodSet(t)
	for i := 0; i < ms.Len(); i++ {
		sel := ms.At(i)
		if sel.Obj().Name() == name {
			return m.prog.MethodValue(sel)
		}
	}
	return nil
}

// isFindingLabel: assertion labels of the form "F<digits>:..." mark the region of a recorded
// finding; a failure there does not end the path (native replay behaves the same way).
func isFindingLabel(l string) bool {
	if len(l) < 3 || l[0] != 'F' {
		return false
	}
	i := 1
	for i < len(l) && l[i] >= '0' && l[i] <= '9' {
		i++
	}
	return i > 1 && i < len(l) && l[i] == ':'
}
