package symgo

// Intrinsics and environment stubs. Every entry is part of every claim (DESIGN.md §2.3).

import (
	"crypto/sha256"
	"fmt"
	"go/token"
	"go/types"
	"path/filepath"
	"strings"

	"golang.org/x/tools/go/ssa"
)

type intrinsic func(m *Machine, fr *frame, args []value) value

// nativeFn is a callable value implemented by the executor (e.g. context.CancelFunc).
type nativeFn struct {
	f func(m *Machine, args []value) value
}

// initAllowed lists the packages whose package initialiser is executed from source.
func initAllowed(path string) bool {
	switch path {
	case "io", "bytes", "strings", "sort", "math/bits", "encoding/binary",
		"container/list", "slices", "cmp", "encoding/hex", "context", "bufio", "hash", "crypto",
		"encoding/base64", "internal/itoa", "internal/stringslite", "io/fs", "maps", "iter":
		return true
	}
	if strings.HasPrefix(path, "github.com/cosmos/iavl/v2/") && path != "github.com/cosmos/iavl/v2/internal" && path != "github.com/cosmos/iavl/v2/metrics" {
		return false // cmd, migrate, testutil: not executed
	}
	for _, p := range []string{"github.com/cosmos/iavl", "github.com/cosmos/ics23/go", "github.com/google/btree",
		"cosmossdk.io/core", "cosmossdk.io/log"} {
		if path == p || strings.HasPrefix(path, p+"/") {
			return true
		}
	}
	return false
}

func (m *Machine) lookupIntrinsic(fn *ssa.Function) intrinsic {
	name := fn.String()
	if fn.Pkg != nil && fn.Parent() == nil && fn.Signature.Recv() == nil {
		// package initialisers outside the allow list are skipped
		if fn.Name() == "init" && fn.Synthetic != "" {
			if !initAllowed(fn.Pkg.Pkg.Path()) {
				return func(m *Machine, fr *frame, args []value) value { return nil }
			}
			return nil
		}
		// harness API
		if strings.HasPrefix(fn.Name(), "v") && fn.Pos() != token.NoPos {
			file := filepath.Base(m.prog.Fset.Position(fn.Pos()).Filename)
			if strings.HasPrefix(file, "zz_verif") {
				if in, ok := apiIntrinsics[fn.Name()]; ok {
					return in
				}
			}
		}
	}
	if in, ok := intrinsics[name]; ok {
		return in
	}
	// families
	switch {
	case strings.HasPrefix(name, "github.com/gogo/protobuf/proto.Register"),
		strings.HasPrefix(name, "github.com/cosmos/gogoproto/proto.Register"),
		strings.HasPrefix(name, "github.com/golang/protobuf/proto.Register"),
		strings.HasPrefix(name, "google.golang.org/protobuf/"):
		if strings.Contains(name, ".Register") {
			return func(m *Machine, fr *frame, args []value) value { return nil }
		}
	case name == "github.com/cosmos/iavl/v2.NewInMemorySqliteDb" || name == "github.com/cosmos/iavl/v2.NewSqliteDb":
		// C19: SQLite is not encodable; the kernels run with a database that stores nothing
		return func(m *Machine, fr *frame, args []value) value {
			t := m.namedType("github.com/cosmos/iavl/v2", "SqliteDb")
			return tuple{m.newStructPtr(t), iface{}}
		}
	case strings.HasPrefix(name, "(*github.com/cosmos/iavl/v2.SqliteDb).") || strings.HasPrefix(name, "(*github.com/cosmos/iavl/v2.sqlWriter)."):
		return func(m *Machine, fr *frame, args []value) value { return zeroResult(fn) }
	case strings.HasPrefix(name, "text/template.") || strings.HasPrefix(name, "(*text/template.Template)."):
		return func(m *Machine, fr *frame, args []value) value {
			return zeroResult(fn)
		}
	case strings.HasPrefix(name, "fmt.Fp") || strings.HasPrefix(name, "fmt.Print") || strings.HasPrefix(name, "log.") ||
		strings.HasPrefix(name, "(*log.Logger)."):
		return func(m *Machine, fr *frame, args []value) value { return zeroResult(fn) }
	case strings.HasPrefix(name, "sync/atomic."):
		return atomicIntrinsic(fn)
	case strings.HasPrefix(name, "(*sync/atomic."):
		if fn.Blocks == nil {
			return atomicIntrinsic(fn)
		}
	case strings.HasPrefix(name, "runtime."):
		switch fn.Name() {
		case "GC", "KeepAlive", "SetFinalizer", "Gosched":
			return func(m *Machine, fr *frame, args []value) value {
				if fn.Name() == "Gosched" {
					m.sched.yield()
				}
				return nil
			}
		case "NumCPU", "GOMAXPROCS":
			return func(m *Machine, fr *frame, args []value) value { return int(1) }
		}
	}
	return nil
}

func zeroResult(fn *ssa.Function) value {
	res := fn.Signature.Results()
	switch res.Len() {
	case 0:
		return nil
	case 1:
		return zero(res.At(0).Type())
	}
	return zero(res)
}

func bytesOf(v value) []value {
	switch x := v.(type) {
	case []value:
		return x
	case string, *SymStr:
		return strBytes(x)
	}
	panic(fmt.Sprintf("symgo: internal: bytesOf: %T", v))
}

func allConcrete(b []value) bool {
	for _, x := range b {
		if _, ok := x.(uint8); !ok {
			return false
		}
	}
	return true
}

func concBytes(b []value) []byte {
	out := make([]byte, len(b))
	for i, x := range b {
		out[i] = x.(uint8)
	}
	return out
}

func valBytes(b []byte) []value {
	out := make([]value, len(b))
	for i, x := range b {
		out[i] = x
	}
	return out
}

// compareV returns bytes.Compare(a,b) as a value (int).
func (m *Machine) compareV(a, b []value) value {
	lt, eq := m.bytesLex(a, b)
	f := m.F
	t := f.Ite(lt, f.Const(^uint64(0), 64), f.Ite(eq, f.Const(0, 64), f.Const(1, 64)))
	return wrap(t, types.Int)
}

func (m *Machine) hashToken(algo string, pre []value) []value {
	if m.cfg.ConcreteHash && allConcrete(pre) {
		switch algo {
		case "sha256":
			d := sha256.Sum256(concBytes(pre))
			return valBytes(d[:])
		}
	}
	ts := make([]*Term, len(pre))
	for i, p := range pre {
		ts[i] = m.termOf(p)
	}
	tok := m.F.Token(algo, ts)
	out := make([]value, 32)
	for i := range out {
		out[i] = &Sym{T: m.F.HashByte(tok, i), K: types.Uint8}
	}
	return out
}

func (m *Machine) namedType(pkgPath, name string) types.Type {
	p := m.prog.ImportedPackage(pkgPath)
	if p == nil {
		panic("symgo: package not loaded: " + pkgPath)
	}
	t := p.Type(name)
	if t == nil {
		panic("symgo: type not found: " + pkgPath + "." + name)
	}
	return t.Type()
}

func (m *Machine) newStructPtr(t types.Type) *value {
	p := new(value)
	*p = zero(t)
	return p
}

func (m *Machine) mkError(msg string, wrapped value) value {
	if w, ok := wrapped.(iface); ok && w.t != nil {
		t := m.namedType("fmt", "wrapError")
		p := m.newStructPtr(t)
		s := (*p).(structure)
		s[0] = msg
		s[1] = w
		return iface{t: types.NewPointer(t), v: p}
	}
	t := m.namedType("errors", "errorString")
	p := m.newStructPtr(t)
	(*p).(structure)[0] = msg
	return iface{t: types.NewPointer(t), v: p}
}

// nativeArg converts a value to something fmt can print (best effort, diagnostics only).
func (m *Machine) nativeArg(v value) interface{} {
	switch x := v.(type) {
	case iface:
		if x.t == nil {
			return nil
		}
		if types.Implements(x.t, errorIface) {
			return panicString(m, x)
		}
		if meth := m.findMethod(x.t, "String"); meth != nil && meth.Signature.Params().Len() == 0 {
			var s string
			func() {
				defer func() {
					if r := recover(); r != nil {
						if pa, ok := r.(pathAbort); ok {
							panic(pa)
						}
						s = "?"
					}
				}()
				if r, ok := call(m, nil, 0, meth, []value{x.v}).(string); ok {
					s = r
				} else {
					s = "?"
				}
			}()
			return s
		}
		return m.nativeArg(x.v)
	case []value:
		if allConcrete(x) {
			return concBytes(x)
		}
		return "<sym bytes>"
	case *Sym:
		return "<sym>"
	case *SymStr:
		return "<symstr>"
	case bool, int, int8, int16, int32, int64, uint, uint8, uint16, uint32, uint64, uintptr, float32, float64, string:
		return x
	case *value:
		if x == nil {
			return "<nil>"
		}
		return "<ptr>"
	}
	return fmt.Sprintf("<%T>", v)
}

var errorIface = types.Universe.Lookup("error").Type().Underlying().(*types.Interface)

func (m *Machine) sprintf(format string, args []value) string {
	nat := make([]interface{}, len(args))
	for i, a := range args {
		nat[i] = m.nativeArg(a)
	}
	format = strings.ReplaceAll(format, "%w", "%v")
	return fmt.Sprintf(format, nat...)
}

func strArg(v value) string {
	if s, ok := v.(string); ok {
		return s
	}
	return "<symbolic string>"
}

type hashState struct {
	buf []value
}

type ctxState struct {
	done   *chanObj
	err    value
	parent *ctxState
}

var intrinsics map[string]intrinsic

func init() {
	intrinsics = map[string]intrinsic{
		// ---- bytes / strings kernels
		"bytes.Compare": func(m *Machine, fr *frame, args []value) value {
			return m.compareV(bytesOf(args[0]), bytesOf(args[1]))
		},
		"bytes.Equal": func(m *Machine, fr *frame, args []value) value {
			return wrap(m.bytesEqTerm(bytesOf(args[0]), bytesOf(args[1])), types.Bool)
		},
		"bytes.HasPrefix": func(m *Machine, fr *frame, args []value) value {
			a, p := bytesOf(args[0]), bytesOf(args[1])
			if len(a) < len(p) {
				return false
			}
			return wrap(m.bytesEqTerm(a[:len(p)], p), types.Bool)
		},
		"bytes.HasSuffix": func(m *Machine, fr *frame, args []value) value {
			a, p := bytesOf(args[0]), bytesOf(args[1])
			if len(a) < len(p) {
				return false
			}
			return wrap(m.bytesEqTerm(a[len(a)-len(p):], p), types.Bool)
		},
		"strings.HasPrefix": func(m *Machine, fr *frame, args []value) value {
			a, p := bytesOf(args[0]), bytesOf(args[1])
			if len(a) < len(p) {
				return false
			}
			return wrap(m.bytesEqTerm(a[:len(p)], p), types.Bool)
		},
		"strings.Compare": func(m *Machine, fr *frame, args []value) value {
			return m.compareV(bytesOf(args[0]), bytesOf(args[1]))
		},
		"internal/bytealg.Compare": func(m *Machine, fr *frame, args []value) value {
			return m.compareV(bytesOf(args[0]), bytesOf(args[1]))
		},
		"internal/bytealg.Equal": func(m *Machine, fr *frame, args []value) value {
			return wrap(m.bytesEqTerm(bytesOf(args[0]), bytesOf(args[1])), types.Bool)
		},
		"internal/bytealg.IndexByte":       indexByte,
		"internal/bytealg.IndexByteString": indexByte,
		"internal/bytealg.Count":           countByte,
		"internal/bytealg.CountString":     countByte,
		"internal/bytealg.MakeNoZero": func(m *Machine, fr *frame, args []value) value {
			n := m.intArg(args[0])
			out := make([]value, n)
			for i := range out {
				out[i] = uint8(0)
			}
			return out
		},
		"math/bits.Len64": func(m *Machine, fr *frame, args []value) value {
			return m.bitsLen(args[0], 64)
		},
		"math/bits.Len32": func(m *Machine, fr *frame, args []value) value {
			return m.bitsLen(args[0], 32)
		},
		"math/bits.Len": func(m *Machine, fr *frame, args []value) value {
			return m.bitsLen(args[0], 64)
		},

		// (*bytes.Buffer).Grow with a symbolic count: a capacity hint; the buffer is
		// left as it is (it grows on Write anyway).
		"(*bytes.Buffer).Grow": func(m *Machine, fr *frame, args []value) value {
			if _, ok := args[1].(*Sym); !ok {
				return notHandled{}
			}
			return nil // (the panic for a negative symbolic count is not modelled)
		},

		// ---- hashing
		"crypto/sha256.New": func(m *Machine, fr *frame, args []value) value {
			t := m.namedType("crypto/sha256", "digest")
			p := m.newStructPtr(t)
			m.sideHash[p] = &hashState{}
			return iface{t: types.NewPointer(t), v: p}
		},
		"crypto/sha256.Sum256": func(m *Machine, fr *frame, args []value) value {
			return array(m.hashToken("sha256", bytesOf(args[0])))
		},
		"(*crypto/sha256.digest).Write": func(m *Machine, fr *frame, args []value) value {
			h := m.sideHash[args[0].(*value)]
			b := bytesOf(args[1])
			h.buf = append(h.buf, b...)
			return tuple{len(b), iface{}}
		},
		"(*crypto/sha256.digest).Sum": func(m *Machine, fr *frame, args []value) value {
			h := m.sideHash[args[0].(*value)]
			in, _ := args[1].([]value)
			return append(append([]value{}, in...), m.hashToken("sha256", h.buf)...)
		},
		"(*crypto/sha256.digest).Reset": func(m *Machine, fr *frame, args []value) value {
			m.sideHash[args[0].(*value)].buf = nil
			return nil
		},
		"(*crypto/sha256.digest).Size":      func(m *Machine, fr *frame, args []value) value { return 32 },
		"(*crypto/sha256.digest).BlockSize": func(m *Machine, fr *frame, args []value) value { return 64 },
		"github.com/cosmos/ics23/go.hashBz": func(m *Machine, fr *frame, args []value) value {
			hv := args[0]
			if it, ok := hv.(iface); ok { // hasher interface holding a crypto.Hash
				hv = it.v
			}
			if asInt64(hv) != 5 { // crypto.SHA256
				panic("symgo: ics23 hash other than SHA256")
			}
			return tuple{m.hashToken("sha256", bytesOf(args[1])), iface{}}
		},

		// ---- fmt / errors
		"fmt.Errorf": func(m *Machine, fr *frame, args []value) value {
			format := strArg(args[0])
			va, _ := args[1].([]value)
			var wrapped value
			if strings.Contains(format, "%w") {
				for _, a := range va {
					if it, ok := a.(iface); ok && it.t != nil && types.Implements(it.t, errorIface) {
						wrapped = it
						break
					}
				}
			}
			return m.mkError(m.sprintf(format, va), wrapped)
		},
		"fmt.Sprintf": func(m *Machine, fr *frame, args []value) value {
			va, _ := args[1].([]value)
			return m.sprintf(strArg(args[0]), va)
		},
		"fmt.Sprint": func(m *Machine, fr *frame, args []value) value {
			va, _ := args[0].([]value)
			nat := make([]interface{}, len(va))
			for i, a := range va {
				nat[i] = m.nativeArg(a)
			}
			return fmt.Sprint(nat...)
		},
		"fmt.Sprintln": func(m *Machine, fr *frame, args []value) value {
			va, _ := args[0].([]value)
			nat := make([]interface{}, len(va))
			for i, a := range va {
				nat[i] = m.nativeArg(a)
			}
			return fmt.Sprintln(nat...)
		},
		"errors.Is": func(m *Machine, fr *frame, args []value) value {
			return m.errorsIs(args[0].(iface), args[1].(iface), 0)
		},
		"errors.As": func(m *Machine, fr *frame, args []value) value {
			return m.errorsAs(args[0].(iface), args[1].(iface))
		},

		// ---- sync
		"(*sync.Mutex).Lock":   func(m *Machine, fr *frame, args []value) value { m.lock(args[0].(*value)); return nil },
		"(*sync.Mutex).Unlock": func(m *Machine, fr *frame, args []value) value { m.unlock(args[0].(*value)); return nil },
		"(*sync.Mutex).TryLock": func(m *Machine, fr *frame, args []value) value {
			return m.tryLock(args[0].(*value))
		},
		"(*sync.RWMutex).TryLock": func(m *Machine, fr *frame, args []value) value {
			return m.tryLock(args[0].(*value))
		},
		"(*sync.RWMutex).TryRLock": func(m *Machine, fr *frame, args []value) value {
			ls := m.lockOf(args[0].(*value))
			if ls.writer {
				return false
			}
			ls.readers++
			m.locksHeld++
			return true
		},
		"(*sync.RWMutex).Lock":    func(m *Machine, fr *frame, args []value) value { m.lock(args[0].(*value)); return nil },
		"(*sync.RWMutex).Unlock":  func(m *Machine, fr *frame, args []value) value { m.unlock(args[0].(*value)); return nil },
		"(*sync.RWMutex).RLock":   func(m *Machine, fr *frame, args []value) value { m.rlock(args[0].(*value)); return nil },
		"(*sync.RWMutex).RUnlock": func(m *Machine, fr *frame, args []value) value { m.runlock(args[0].(*value)); return nil },
		"(*sync.Once).Do": func(m *Machine, fr *frame, args []value) value {
			p := args[0].(*value)
			if !m.sideOnce[p] {
				m.sideOnce[p] = true
				call(m, fr, 0, args[1], nil)
			}
			return nil
		},
		"(*sync.WaitGroup).Add": func(m *Machine, fr *frame, args []value) value {
			p := args[0].(*value)
			c := m.sideWG[p]
			if c == nil {
				c = new(int)
				m.sideWG[p] = c
			}
			*c += int(asInt64(args[1]))
			if *c < 0 {
				panic("sync: negative WaitGroup counter")
			}
			return nil
		},
		"(*sync.WaitGroup).Done": func(m *Machine, fr *frame, args []value) value {
			p := args[0].(*value)
			c := m.sideWG[p]
			if c == nil || *c <= 0 {
				panic("sync: negative WaitGroup counter")
			}
			*c--
			return nil
		},
		"(*sync.WaitGroup).Wait": func(m *Machine, fr *frame, args []value) value {
			p := args[0].(*value)
			m.sched.waitUntil(func() bool { c := m.sideWG[p]; return c == nil || *c == 0 }, "WaitGroup.Wait")
			return nil
		},
		"(*sync.Pool).Get": func(m *Machine, fr *frame, args []value) value {
			p := args[0].(*value)
			st := (*p).(structure)
			newFn := st[len(st)-1] // field New is the last field of sync.Pool
			switch f := newFn.(type) {
			case *ssa.Function:
				if f == nil {
					return iface{}
				}
			}
			return call(m, fr, 0, newFn, nil)
		},
		"(*sync.Pool).Put": func(m *Machine, fr *frame, args []value) value { return nil },
		"(*sync.Map).Load": func(m *Machine, fr *frame, args []value) value {
			mp := m.syncMap(args[0].(*value))
			if e := m.mapFind(mp, args[1]); e != nil {
				return tuple{e.val, true}
			}
			return tuple{iface{}, false}
		},
		"(*sync.Map).Store": func(m *Machine, fr *frame, args []value) value {
			m.mapSet(m.syncMap(args[0].(*value)), args[1], args[2])
			return nil
		},
		"(*sync.Map).LoadOrStore": func(m *Machine, fr *frame, args []value) value {
			mp := m.syncMap(args[0].(*value))
			if e := m.mapFind(mp, args[1]); e != nil {
				return tuple{e.val, true}
			}
			m.mapSet(mp, args[1], args[2])
			return tuple{args[2], false}
		},
		"(*sync.Map).LoadAndDelete": func(m *Machine, fr *frame, args []value) value {
			mp := m.syncMap(args[0].(*value))
			if e := m.mapFind(mp, args[1]); e != nil {
				v := e.val
				m.mapDelete(mp, args[1])
				return tuple{v, true}
			}
			return tuple{iface{}, false}
		},
		"(*sync.Map).Delete": func(m *Machine, fr *frame, args []value) value {
			m.mapDelete(m.syncMap(args[0].(*value)), args[1])
			return nil
		},
		"(*sync.Map).Range": func(m *Machine, fr *frame, args []value) value {
			mp := m.syncMap(args[0].(*value))
			ents := append([]*mapEntry(nil), mp.ents...)
			for _, e := range ents {
				if e.deleted {
					continue
				}
				if !m.truth(call(m, fr, 0, args[1], []value{e.key, e.val})) {
					break
				}
			}
			return nil
		},

		// ---- context
		"context.Background": func(m *Machine, fr *frame, args []value) value { return m.newCtx(nil) },
		"context.TODO":       func(m *Machine, fr *frame, args []value) value { return m.newCtx(nil) },
		"context.WithCancel": func(m *Machine, fr *frame, args []value) value {
			var parent *ctxState
			if pi, ok := args[0].(iface); ok && pi.t != nil {
				parent = m.sideCtx[pi.v.(*value)]
			}
			ctx := m.newCtx(parent)
			st := m.sideCtx[ctx.v.(*value)]
			cancel := &nativeFn{f: func(m *Machine, _ []value) value {
				if !st.done.closed {
					st.done.closed = true
					st.err = m.globalVar("context", "Canceled")
				}
				return nil
			}}
			return tuple{ctx, cancel}
		},
		"(*context.cancelCtx).Done": func(m *Machine, fr *frame, args []value) value {
			st := m.sideCtx[args[0].(*value)]
			// a cancelled parent cancels the child
			for p := st.parent; p != nil; p = p.parent {
				if p.done.closed && !st.done.closed {
					st.done.closed = true
					st.err = p.err
				}
			}
			return st.done
		},
		"(*context.cancelCtx).Err": func(m *Machine, fr *frame, args []value) value {
			st := m.sideCtx[args[0].(*value)]
			for p := st.parent; p != nil; p = p.parent {
				if p.done.closed && !st.done.closed {
					st.done.closed = true
					st.err = p.err
				}
			}
			if st.err == nil {
				return iface{}
			}
			return st.err
		},
		"(*context.cancelCtx).Value": func(m *Machine, fr *frame, args []value) value { return iface{} },
		"(*context.cancelCtx).Deadline": func(m *Machine, fr *frame, args []value) value {
			return tuple{zero(m.namedType("time", "Time")), false}
		},

		// ---- time
		"time.Now":   func(m *Machine, fr *frame, args []value) value { return zero(m.namedType("time", "Time")) },
		"time.Since": func(m *Machine, fr *frame, args []value) value { return int64(0) },
		"time.Until": func(m *Machine, fr *frame, args []value) value { return int64(0) },
		"time.Sleep": func(m *Machine, fr *frame, args []value) value { m.sched.yield(); return nil },
		"time.After": func(m *Machine, fr *frame, args []value) value { return &chanObj{cap: 1} },
		"(time.Duration).String": func(m *Machine, fr *frame, args []value) value {
			return "0s"
		},

		// ---- sort
		"sort.Slice":       sortSlice,
		"sort.SliceStable": sortSlice,
	}
}

func (m *Machine) globalVar(pkg, name string) value {
	p := m.prog.ImportedPackage(pkg)
	if p == nil {
		return iface{}
	}
	g, ok := p.Members[name].(*ssa.Global)
	if !ok {
		return iface{}
	}
	return *m.global(g)
}

func (m *Machine) newCtx(parent *ctxState) iface {
	t := m.namedType("context", "cancelCtx")
	p := m.newStructPtr(t)
	m.sideCtx[p] = &ctxState{done: &chanObj{}, parent: parent}
	return iface{t: types.NewPointer(t), v: p}
}

func (m *Machine) syncMap(p *value) *amap {
	mp := m.sideMap[p]
	if mp == nil {
		mp = newAmap(types.NewInterfaceType(nil, nil))
		m.sideMap[p] = mp
	}
	return mp
}

func indexByte(m *Machine, fr *frame, args []value) value {
	b := bytesOf(args[0])
	c := args[1]
	for i, x := range b {
		if m.truth(m.equalsV(types.Typ[types.Uint8], x, c)) {
			return i
		}
	}
	return -1
}

func countByte(m *Machine, fr *frame, args []value) value {
	b := bytesOf(args[0])
	c := args[1]
	n := 0
	for _, x := range b {
		if m.truth(m.equalsV(types.Typ[types.Uint8], x, c)) {
			n++
		}
	}
	return n
}

func (m *Machine) bitsLen(v value, w uint8) value {
	s, ok := v.(*Sym)
	if !ok {
		b, _ := bitsOf(v)
		n := 0
		for b != 0 {
			n++
			b >>= 1
		}
		return n
	}
	f := m.F
	t := f.Const(0, 64)
	for i := 1; i <= int(w); i++ {
		// len >= i  iff  x >= 2^(i-1)
		ge := f.Cmp(OpUle, f.Const(uint64(1)<<(i-1), s.T.W), s.T)
		t = f.Ite(ge, f.Const(uint64(i), 64), t)
	}
	return wrap(t, types.Int)
}

func sortSlice(m *Machine, fr *frame, args []value) value {
	it := args[0].(iface)
	s := it.v.([]value)
	less := args[1]
	// insertion sort (stable); less takes indices, so we swap in place
	for i := 1; i < len(s); i++ {
		for j := i; j > 0; j-- {
			if !m.truth(call(m, fr, 0, less, []value{j, j - 1})) {
				break
			}
			s[j], s[j-1] = s[j-1], s[j]
		}
	}
	return nil
}

func (m *Machine) callMethod(recv iface, name string, args ...value) (value, bool) {
	meth := m.findMethod(recv.t, name)
	if meth == nil {
		return nil, false
	}
	return call(m, nil, 0, meth, append([]value{recv.v}, args...)), true
}

func comparableType(t types.Type) bool { return types.Comparable(t) }

func (m *Machine) errorsIs(err, target iface, depth int) value {
	if err.t == nil || target.t == nil {
		return err.t == nil && target.t == nil
	}
	if depth > 50 {
		panic("symgo: errors.Is chain too deep")
	}
	if comparableType(target.t) && sameType(err.t, target.t) {
		if m.truth(m.equalsV(err.t, err.v, target.v)) {
			return true
		}
	}
	if meth := m.findMethod(err.t, "Is"); meth != nil && meth.Signature.Params().Len() == 1 {
		if m.truth(call(m, nil, 0, meth, []value{err.v, target})) {
			return true
		}
	}
	if meth := m.findMethod(err.t, "Unwrap"); meth != nil {
		r := call(m, nil, 0, meth, []value{err.v})
		switch u := r.(type) {
		case iface:
			if u.t == nil {
				return false
			}
			return m.errorsIs(u, target, depth+1)
		case []value:
			for _, e := range u {
				if ei, ok := e.(iface); ok && ei.t != nil {
					if m.truth(m.errorsIs(ei, target, depth+1)) {
						return true
					}
				}
			}
		}
	}
	return false
}

func (m *Machine) errorsAs(err, target iface) value {
	if target.t == nil {
		panic("errors: target cannot be nil")
	}
	pt, ok := target.t.Underlying().(*types.Pointer)
	if !ok {
		panic("errors: target must be a non-nil pointer")
	}
	want := pt.Elem()
	for d := 0; err.t != nil && d < 50; d++ {
		match := false
		if wi, ok := want.Underlying().(*types.Interface); ok {
			match = types.Implements(err.t, wi)
			if match {
				*(target.v.(*value)) = err
				return true
			}
		} else if types.Identical(err.t, want) {
			*(target.v.(*value)) = err.v
			return true
		}
		meth := m.findMethod(err.t, "Unwrap")
		if meth == nil {
			return false
		}
		r, ok := call(m, nil, 0, meth, []value{err.v}).(iface)
		if !ok {
			return false
		}
		err = r
	}
	return false
}

func atomicIntrinsic(fn *ssa.Function) intrinsic {
	name := fn.Name()
	switch {
	case strings.HasPrefix(name, "Load"):
		return func(m *Machine, fr *frame, args []value) value { return *(args[0].(*value)) }
	case strings.HasPrefix(name, "Store"):
		return func(m *Machine, fr *frame, args []value) value { *(args[0].(*value)) = args[1]; return nil }
	case strings.HasPrefix(name, "Add"):
		return func(m *Machine, fr *frame, args []value) value {
			p := args[0].(*value)
			*p = m.binop(token.ADD, nil, *p, args[1])
			return *p
		}
	case strings.HasPrefix(name, "Swap"):
		return func(m *Machine, fr *frame, args []value) value {
			p := args[0].(*value)
			old := *p
			*p = args[1]
			return old
		}
	case strings.HasPrefix(name, "CompareAndSwap"):
		return func(m *Machine, fr *frame, args []value) value {
			p := args[0].(*value)
			if m.truth(m.equalsV(fn.Signature.Params().At(1).Type(), *p, args[1])) {
				*p = args[2]
				return true
			}
			return false
		}
	case strings.HasPrefix(name, "And"), strings.HasPrefix(name, "Or"):
		return nil
	}
	return nil
}
