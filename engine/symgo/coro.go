package symgo

// Goroutines as cooperative coroutines (one runs at a time, deterministic round-robin
// hand-over at blocking points), channels, select, and the lock objects behind the
// sync intrinsics.

import (
	"fmt"
	"go/types"
	"sync"

	"golang.org/x/tools/go/ssa"
)

type coro struct {
	id   int
	wake chan struct{}
	done bool
}

type scheduler struct {
	m      *Machine
	coros  []*coro
	cur    *coro
	spins  int
	crash  interface{}
	wg     sync.WaitGroup
	killed bool
}

func newScheduler(m *Machine) *scheduler {
	s := &scheduler{m: m}
	main := &coro{id: 0, wake: make(chan struct{})}
	s.coros = []*coro{main}
	s.cur = main
	return s
}

// runMain runs f as the main coroutine on the calling goroutine and returns the
// value it panicked with (nil on normal return).
func (s *scheduler) runMain(f func()) (outcome interface{}) {
	defer func() {
		outcome = recover()
	}()
	f()
	return nil
}

func (s *scheduler) live() int {
	n := 0
	for _, c := range s.coros {
		if !c.done {
			n++
		}
	}
	return n
}

func (s *scheduler) spawn(f func()) {
	c := &coro{id: len(s.coros), wake: make(chan struct{})}
	s.coros = append(s.coros, c)
	s.wg.Add(1)
	go func() {
		defer s.wg.Done()
		<-c.wake
		if s.killed {
			return
		}
		func() {
			defer func() {
				if r := recover(); r != nil {
					if pa, ok := r.(pathAbort); ok && pa.reason == "killed" {
						return
					}
					if s.crash == nil {
						s.crash = r
					}
				}
			}()
			f()
		}()
		c.done = true
		if s.killed {
			return
		}
		s.spins = 0
		// hand over to the main coroutine if a crash is pending, else to the next live one
		s.switchFrom(c, true)
	}()
}

// switchFrom passes the baton from c to the next live coroutine. If exiting, c does not wait.
func (s *scheduler) switchFrom(c *coro, exiting bool) {
	n := len(s.coros)
	var next *coro
	if s.crash != nil {
		next = s.coros[0]
	} else {
		for k := 1; k <= n; k++ {
			cand := s.coros[(c.id+k)%n]
			if !cand.done && cand != c {
				next = cand
				break
			}
		}
	}
	if next == nil {
		if exiting {
			panic("symgo: scheduler: last coroutine exited without main")
		}
		return // only c is live
	}
	s.cur = next
	next.wake <- struct{}{}
	if exiting {
		return
	}
	<-c.wake
	s.cur = c
	if s.killed {
		panic(pathAbort{"killed"})
	}
	if s.crash != nil && c.id == 0 {
		cr := s.crash
		s.crash = nil
		panic(cr)
	}
}

// waitUntil blocks the current coroutine until cond holds.
func (s *scheduler) waitUntil(cond func() bool, what string) {
	for !cond() {
		dl := fatalError{"all goroutines are asleep - deadlock! (" + what + ")"}
		if s.live() == 1 {
			panic(dl)
		}
		s.spins++
		if s.spins > 2*s.live()+2 {
			// every live coroutine has been spinning without progress
			if s.cur.id == 0 {
				panic(dl)
			}
			if s.crash == nil {
				s.crash = dl
			}
		}
		s.switchFrom(s.cur, false)
	}
	s.spins = 0
}

// yield lets the other coroutines run once (used by runtime.Gosched and time.Sleep).
func (s *scheduler) yield() {
	if s.live() > 1 {
		s.switchFrom(s.cur, false)
	}
}

func (s *scheduler) killAll() {
	s.killed = true
	for _, c := range s.coros[1:] {
		if !c.done {
			c.wake <- struct{}{}
		}
	}
	s.wg.Wait()
}

// ---- channels

type chanObj struct {
	cap         int
	buf         []value
	closed      bool
	recvWaiting int
	slot        value
	slotFull    bool
	sendSeq     int
	recvSeq     int
}

func (m *Machine) chanSend(ch *chanObj, v value) {
	s := m.sched
	if ch == nil {
		s.waitUntil(func() bool { return false }, "send on nil channel")
	}
	if ch.cap > 0 {
		s.waitUntil(func() bool { return len(ch.buf) < ch.cap || ch.closed }, "chan send")
		if ch.closed {
			panic("send on closed channel")
		}
		ch.buf = append(ch.buf, v)
		return
	}
	s.waitUntil(func() bool { return !ch.slotFull || ch.closed }, "chan send")
	if ch.closed {
		panic("send on closed channel")
	}
	ch.slot, ch.slotFull = v, true
	my := ch.sendSeq
	ch.sendSeq++
	s.waitUntil(func() bool { return ch.recvSeq > my || ch.closed }, "chan send (rendezvous)")
	if ch.recvSeq <= my {
		panic("send on closed channel")
	}
}

func (m *Machine) chanRecv(ch *chanObj) (value, bool) {
	s := m.sched
	if ch == nil {
		s.waitUntil(func() bool { return false }, "receive from nil channel")
	}
	if ch.cap > 0 {
		s.waitUntil(func() bool { return len(ch.buf) > 0 || ch.closed }, "chan receive")
		if len(ch.buf) > 0 {
			v := ch.buf[0]
			ch.buf = ch.buf[1:]
			return v, true
		}
		return nil, false
	}
	ch.recvWaiting++
	defer func() { ch.recvWaiting-- }()
	s.waitUntil(func() bool { return ch.slotFull || ch.closed }, "chan receive")
	if ch.slotFull {
		v := ch.slot
		ch.slot, ch.slotFull = nil, false
		ch.recvSeq++
		return v, true
	}
	return nil, false
}

func (m *Machine) chanClose(ch *chanObj) {
	if ch == nil {
		panic("close of nil channel")
	}
	if ch.closed {
		panic("close of closed channel")
	}
	ch.closed = true
}

func (m *Machine) selectOp(fr *frame, instr *ssa.Select) value {
	type st struct {
		ch   *chanObj
		send bool
		val  value
	}
	states := make([]st, len(instr.States))
	for i, s := range instr.States {
		ch, _ := fr.get(s.Chan).(*chanObj)
		states[i] = st{ch: ch, send: s.Dir == types.SendOnly}
		if states[i].send {
			states[i].val = fr.get(s.Send)
		}
	}
	ready := func() int {
		for i, s := range states {
			if s.ch == nil {
				continue
			}
			if s.send {
				if s.ch.closed {
					return i
				}
				if s.ch.cap > 0 && len(s.ch.buf) < s.ch.cap {
					return i
				}
				if s.ch.cap == 0 && s.ch.recvWaiting > 0 && !s.ch.slotFull {
					return i
				}
			} else {
				if s.ch.closed {
					return i
				}
				if s.ch.cap > 0 && len(s.ch.buf) > 0 {
					return i
				}
				if s.ch.cap == 0 && s.ch.slotFull {
					return i
				}
			}
		}
		return -1
	}
	chosen := ready()
	if chosen < 0 && instr.Blocking {
		for _, s := range states {
			if s.ch != nil && !s.send && s.ch.cap == 0 {
				s.ch.recvWaiting++
			}
		}
		m.sched.waitUntil(func() bool { chosen = ready(); return chosen >= 0 }, "select")
		for _, s := range states {
			if s.ch != nil && !s.send && s.ch.cap == 0 {
				s.ch.recvWaiting--
			}
		}
	}
	var recv value
	recvOk := false
	if chosen >= 0 {
		s := states[chosen]
		if s.send {
			m.chanSend(s.ch, s.val)
		} else {
			recv, recvOk = m.chanRecv(s.ch)
		}
	}
	r := tuple{chosen, recvOk}
	for i, s := range instr.States {
		if s.Dir == types.RecvOnly {
			var v value
			if i == chosen && recvOk {
				v = recv
			} else {
				v = zero(s.Chan.Type().Underlying().(*types.Chan).Elem())
			}
			r = append(r, v)
		}
	}
	return r
}

// ---- locks

type lockState struct {
	writer  bool
	readers int
}

func (m *Machine) lockOf(p *value) *lockState {
	ls := m.sideMutex[p]
	if ls == nil {
		ls = &lockState{}
		m.sideMutex[p] = ls
	}
	return ls
}

func (m *Machine) lock(p *value) {
	ls := m.lockOf(p)
	m.sched.waitUntil(func() bool { return !ls.writer && ls.readers == 0 }, "Lock")
	ls.writer = true
	m.locksHeld++
}

func (m *Machine) tryLock(p *value) bool {
	ls := m.lockOf(p)
	if !ls.writer && ls.readers == 0 {
		ls.writer = true
		m.locksHeld++
		return true
	}
	return false
}

func (m *Machine) unlock(p *value) {
	ls := m.lockOf(p)
	if !ls.writer {
		panic(fatalError{"sync: unlock of unlocked mutex"})
	}
	ls.writer = false
	m.locksHeld--
}

func (m *Machine) rlock(p *value) {
	ls := m.lockOf(p)
	m.sched.waitUntil(func() bool { return !ls.writer }, "RLock")
	ls.readers++
	m.locksHeld++
}

func (m *Machine) runlock(p *value) {
	ls := m.lockOf(p)
	if ls.readers <= 0 {
		panic(fatalError{"sync: RUnlock of unlocked RWMutex"})
	}
	ls.readers--
	m.locksHeld--
}

var _ = fmt.Sprint
