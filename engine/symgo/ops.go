package symgo

// Operators. Derived from golang.org/x/tools/go/ssa/interp/ops.go (BSD licence,
// Copyright 2013 The Go Authors); concrete operands take the native fast path,
// symbolic operands build bit-vector terms with Go's wrapping semantics.

import (
	"fmt"
	"go/constant"
	"go/token"
	"go/types"
	"strings"
	"unsafe"

	"golang.org/x/tools/go/ssa"
)

type targetPanic struct {
	v value
}

func (p targetPanic) String() string { return toString(p.v) }

func deref(t types.Type) types.Type {
	if p, ok := t.Underlying().(*types.Pointer); ok {
		return p.Elem()
	}
	panic(fmt.Sprintf("symgo: internal: deref: not a pointer: %s", t))
}

func constValue(c *ssa.Const) value {
	if c.Value == nil {
		return zero(c.Type())
	}
	if t, ok := c.Type().Underlying().(*types.Basic); ok {
		switch t.Kind() {
		case types.Bool, types.UntypedBool:
			return constant.BoolVal(c.Value)
		case types.Int, types.UntypedInt:
			return int(c.Int64())
		case types.Int8:
			return int8(c.Int64())
		case types.Int16:
			return int16(c.Int64())
		case types.Int32, types.UntypedRune:
			return int32(c.Int64())
		case types.Int64:
			return c.Int64()
		case types.Uint:
			return uint(c.Uint64())
		case types.Uint8:
			return uint8(c.Uint64())
		case types.Uint16:
			return uint16(c.Uint64())
		case types.Uint32:
			return uint32(c.Uint64())
		case types.Uint64:
			return c.Uint64()
		case types.Uintptr:
			return uintptr(c.Uint64())
		case types.Float32:
			return float32(c.Float64())
		case types.Float64, types.UntypedFloat:
			return c.Float64()
		case types.Complex64:
			return complex64(c.Complex128())
		case types.Complex128, types.UntypedComplex:
			return c.Complex128()
		case types.String, types.UntypedString:
			if c.Value.Kind() == constant.String {
				return constant.StringVal(c.Value)
			}
			return string(rune(c.Int64()))
		}
	}
	panic(fmt.Sprintf("symgo: internal: constValue: %s", c))
}

func asInt64(x value) int64 {
	switch x := x.(type) {
	case int:
		return int64(x)
	case int8:
		return int64(x)
	case int16:
		return int64(x)
	case int32:
		return int64(x)
	case int64:
		return x
	case uint:
		return int64(x)
	case uint8:
		return int64(x)
	case uint16:
		return int64(x)
	case uint32:
		return int64(x)
	case uint64:
		return int64(x)
	case uintptr:
		return int64(x)
	}
	panic(fmt.Sprintf("symgo: internal: cannot convert %T to int64", x))
}

func zero(t types.Type) value {
	switch t := t.(type) {
	case *types.Basic:
		if t.Kind() == types.UntypedNil {
			panic("untyped nil has no zero value")
		}
		if t.Info()&types.IsUntyped != 0 {
			t = types.Default(t).(*types.Basic)
		}
		switch t.Kind() {
		case types.Bool:
			return false
		case types.Int:
			return int(0)
		case types.Int8:
			return int8(0)
		case types.Int16:
			return int16(0)
		case types.Int32:
			return int32(0)
		case types.Int64:
			return int64(0)
		case types.Uint:
			return uint(0)
		case types.Uint8:
			return uint8(0)
		case types.Uint16:
			return uint16(0)
		case types.Uint32:
			return uint32(0)
		case types.Uint64:
			return uint64(0)
		case types.Uintptr:
			return uintptr(0)
		case types.Float32:
			return float32(0)
		case types.Float64:
			return float64(0)
		case types.Complex64:
			return complex64(0)
		case types.Complex128:
			return complex128(0)
		case types.String:
			return ""
		case types.UnsafePointer:
			return unsafe.Pointer(nil)
		default:
			panic(fmt.Sprint("zero for unexpected type:", t))
		}
	case *types.Pointer:
		return (*value)(nil)
	case *types.Array:
		a := make(array, t.Len())
		for i := range a {
			a[i] = zero(t.Elem())
		}
		return a
	case *types.Named:
		return zero(t.Underlying())
	case *types.Alias:
		return zero(types.Unalias(t))
	case *types.Interface:
		return iface{}
	case *types.Slice:
		return []value(nil)
	case *types.Struct:
		s := make(structure, t.NumFields())
		for i := range s {
			s[i] = zero(t.Field(i).Type())
		}
		return s
	case *types.Tuple:
		if t.Len() == 1 {
			return zero(t.At(0).Type())
		}
		s := make(tuple, t.Len())
		for i := range s {
			s[i] = zero(t.At(i).Type())
		}
		return s
	case *types.Chan:
		return (*chanObj)(nil)
	case *types.Map:
		return (*amap)(nil)
	case *types.Signature:
		return (*ssa.Function)(nil)
	case *types.TypeParam:
		panic("symgo: zero of type parameter (generic function not instantiated)")
	}
	panic(fmt.Sprint("zero: unexpected ", t))
}

// intArg returns a concrete int for a (possibly symbolic) integer operand that determines shape.
func (m *Machine) intArg(v value) int64 {
	if v == nil {
		panic("intArg nil")
	}
	if _, ok := v.(*Sym); ok {
		return m.concretize(v)
	}
	return asInt64(v)
}

// slice returns x[lo:hi:max].
func (m *Machine) slice(x, lo, hi, max value) value {
	var Len, Cap int
	switch x := x.(type) {
	case string:
		Len = len(x)
		Cap = Len
	case *SymStr:
		Len = len(x.b)
		Cap = Len
	case []value:
		Len = len(x)
		Cap = cap(x)
	case *value: // *array
		if x == nil {
			panic("runtime error: invalid memory address or nil pointer dereference")
		}
		a := (*x).(array)
		Len = len(a)
		Cap = cap(a)
	}
	// symbolic bounds: out-of-range is a path of its own (it panics); in-range values are enumerated
	if isSym(lo) || isSym(hi) || isSym(max) {
		f := m.F
		t := func(v value, def int64) *Term {
			if v == nil {
				return f.Const(uint64(def), 64)
			}
			tt := m.termOf(v)
			if tt.W != 64 {
				tt = f.Resize(tt, 64, kindSigned(kindOf(v)))
			}
			return tt
		}
		_, isStr := x.(string)
		_, isSS := x.(*SymStr)
		tl, th := t(lo, 0), t(hi, int64(Len))
		var ok *Term
		if isStr || isSS || max == nil {
			lim := int64(Cap)
			if isStr || isSS {
				lim = int64(Len)
			}
			ok = f.And(f.Cmp(OpSle, f.Const(0, 64), tl), f.Cmp(OpSle, tl, th), f.Cmp(OpSle, th, f.Const(uint64(lim), 64)))
		} else {
			tm := t(max, int64(Cap))
			ok = f.And(f.Cmp(OpSle, f.Const(0, 64), tl), f.Cmp(OpSle, tl, th), f.Cmp(OpSle, th, tm), f.Cmp(OpSle, tm, f.Const(uint64(Cap), 64)))
		}
		if !m.decide(ok) {
			panic(fmt.Sprintf("runtime error: slice bounds out of range [symbolic] with capacity %d", Cap))
		}
	}
	l := int64(0)
	if lo != nil {
		l = m.intArg(lo)
	}
	h := int64(Len)
	if hi != nil {
		h = m.intArg(hi)
	}
	mx := int64(Cap)
	if max != nil {
		mx = m.intArg(max)
	}
	switch x := x.(type) {
	case string:
		if l < 0 || h < l || h > int64(Len) {
			panic(fmt.Sprintf("runtime error: slice bounds out of range [%d:%d] with length %d", l, h, Len))
		}
		return x[l:h]
	case *SymStr:
		if l < 0 || h < l || h > int64(Len) {
			panic(fmt.Sprintf("runtime error: slice bounds out of range [%d:%d] with length %d", l, h, Len))
		}
		return mkStr(x.b[l:h])
	case []value:
		if l < 0 || h < l || mx < h || mx > int64(Cap) {
			panic(fmt.Sprintf("runtime error: slice bounds out of range [%d:%d:%d] with capacity %d", l, h, mx, Cap))
		}
		return x[l:h:mx]
	case *value:
		a := (*x).(array)
		if l < 0 || h < l || mx < h || mx > int64(Cap) {
			panic(fmt.Sprintf("runtime error: slice bounds out of range [%d:%d:%d] with capacity %d", l, h, mx, Cap))
		}
		return []value(a)[l:h:mx]
	}
	panic(fmt.Sprintf("symgo: internal: slice: unexpected X type: %T", x))
}

func (m *Machine) lookup(instr *ssa.Lookup, x, idx value) value {
	switch x := x.(type) {
	case *amap:
		var v value
		ok := false
		if x != nil {
			if e := m.mapFind(x, idx); e != nil {
				v, ok = e.val, true
			}
		}
		if !ok {
			v = zero(instr.X.Type().Underlying().(*types.Map).Elem())
		} else {
			v = copyVal(v)
		}
		if instr.CommaOk {
			v = tuple{v, ok}
		}
		return v
	case string:
		i := m.intArg(idx)
		if i < 0 || i >= int64(len(x)) {
			panic(fmt.Sprintf("runtime error: index out of range [%d] with length %d", i, len(x)))
		}
		return x[i]
	case *SymStr:
		i := m.intArg(idx)
		if i < 0 || i >= int64(len(x.b)) {
			panic(fmt.Sprintf("runtime error: index out of range [%d] with length %d", i, len(x.b)))
		}
		return x.b[i]
	}
	panic(fmt.Sprintf("symgo: internal: unexpected x type in Lookup: %T", x))
}

var binTermOp = map[token.Token][2]Op{ // [unsigned, signed]
	token.ADD:     {OpAdd, OpAdd},
	token.SUB:     {OpSub, OpSub},
	token.MUL:     {OpMul, OpMul},
	token.QUO:     {OpUDiv, OpSDiv},
	token.REM:     {OpURem, OpSRem},
	token.AND:     {OpAnd, OpAnd},
	token.OR:      {OpOr, OpOr},
	token.XOR:     {OpXor, OpXor},
	token.AND_NOT: {OpAnd, OpAnd},
	token.SHL:     {OpShl, OpShl},
	token.SHR:     {OpLShr, OpAShr},
}

// symBinop handles binary operators when at least one operand is symbolic.
func (m *Machine) symBinop(op token.Token, t types.Type, x, y value) value {
	f := m.F
	// strings with symbolic bytes
	if isStrVal(x) && isStrVal(y) {
		return m.strBinop(op, x, y)
	}
	kx := kindOf(x)
	ky := kindOf(y)
	if kx == types.Invalid || ky == types.Invalid {
		panic(fmt.Sprintf("symgo: symbolic binop on %T %s %T", x, op, y))
	}
	tx, ty := m.termOf(x), m.termOf(y)
	signed := kindSigned(kx)
	sel := 0
	if signed {
		sel = 1
	}
	switch op {
	case token.SHL, token.SHR:
		// bring the count to the width of x (Go: counts >= width give 0 / sign fill, same as SMT)
		if ty.W != tx.W {
			if ty.W > tx.W {
				big := f.Cmp(OpUle, f.Const(uint64(tx.W), ty.W), ty)
				ty = f.Ite(big, f.Const(uint64(tx.W), tx.W), f.Resize(ty, tx.W, false))
			} else {
				ty = f.Resize(ty, tx.W, false)
			}
		}
		return wrap(f.Bin(binTermOp[op][sel], tx, ty), kx)
	case token.ADD, token.SUB, token.MUL, token.AND, token.OR, token.XOR:
		return wrap(f.Bin(binTermOp[op][sel], tx, ty), kx)
	case token.AND_NOT:
		return wrap(f.Bin(OpAnd, tx, f.Un(OpNot, ty)), kx)
	case token.QUO, token.REM:
		if m.decide(f.Eq(ty, f.Const(0, ty.W))) {
			panic("runtime error: integer divide by zero")
		}
		return wrap(f.Bin(binTermOp[op][sel], tx, ty), kx)
	case token.EQL:
		return wrap(f.Eq(tx, ty), types.Bool)
	case token.NEQ:
		return wrap(f.Not(f.Eq(tx, ty)), types.Bool)
	case token.LSS:
		if signed {
			return wrap(f.Cmp(OpSlt, tx, ty), types.Bool)
		}
		return wrap(f.Cmp(OpUlt, tx, ty), types.Bool)
	case token.LEQ:
		if signed {
			return wrap(f.Cmp(OpSle, tx, ty), types.Bool)
		}
		return wrap(f.Cmp(OpUle, tx, ty), types.Bool)
	case token.GTR:
		if signed {
			return wrap(f.Cmp(OpSlt, ty, tx), types.Bool)
		}
		return wrap(f.Cmp(OpUlt, ty, tx), types.Bool)
	case token.GEQ:
		if signed {
			return wrap(f.Cmp(OpSle, ty, tx), types.Bool)
		}
		return wrap(f.Cmp(OpUle, ty, tx), types.Bool)
	}
	panic(fmt.Sprintf("symgo: unsupported symbolic binop %s", op))
}

func isStrVal(v value) bool {
	switch v.(type) {
	case string, *SymStr:
		return true
	}
	return false
}

// bytesLexTerm returns (lt, eq) terms for the lexicographic comparison of byte sequences a and b.
func (m *Machine) bytesLex(a, b []value) (lt, eq *Term) {
	f := m.F
	n := len(a)
	if len(b) < n {
		n = len(b)
	}
	// from the end: if all common bytes equal, shorter is smaller
	lt = f.Bool(len(a) < len(b))
	eq = f.Bool(len(a) == len(b))
	for i := n - 1; i >= 0; i-- {
		x, y := m.termOf(a[i]), m.termOf(b[i])
		if x == y {
			continue
		}
		e := f.Eq(x, y)
		l := f.Cmp(OpUlt, x, y)
		lt = f.Or(l, f.And(e, lt))
		eq = f.And(e, eq)
	}
	return
}

func (m *Machine) bytesEqTerm(a, b []value) *Term {
	if len(a) != len(b) {
		return m.F.False
	}
	cs := make([]*Term, 0, len(a))
	for i := range a {
		x, y := m.termOf(a[i]), m.termOf(b[i])
		if x == y {
			continue
		}
		c := m.F.Eq(x, y)
		if c == m.F.False {
			return c
		}
		cs = append(cs, c)
	}
	return m.F.And(cs...)
}

func (m *Machine) strBinop(op token.Token, x, y value) value {
	a, b := strBytes(x), strBytes(y)
	f := m.F
	switch op {
	case token.ADD:
		out := make([]value, 0, len(a)+len(b))
		out = append(out, a...)
		out = append(out, b...)
		return mkStr(out)
	case token.EQL:
		return wrap(m.bytesEqTerm(a, b), types.Bool)
	case token.NEQ:
		return wrap(f.Not(m.bytesEqTerm(a, b)), types.Bool)
	}
	lt, eq := m.bytesLex(a, b)
	switch op {
	case token.LSS:
		return wrap(lt, types.Bool)
	case token.LEQ:
		return wrap(f.Or(lt, eq), types.Bool)
	case token.GTR:
		return wrap(f.Not(f.Or(lt, eq)), types.Bool)
	case token.GEQ:
		return wrap(f.Not(lt), types.Bool)
	}
	panic(fmt.Sprintf("symgo: unsupported string op %s", op))
}

// binop implements all arithmetic and logical binary operators.
func (m *Machine) binop(op token.Token, t types.Type, x, y value) value {
	switch x.(type) {
	case *Sym, *SymStr:
		if op != token.EQL && op != token.NEQ {
			return m.symBinop(op, t, x, y)
		}
	}
	switch y.(type) {
	case *Sym, *SymStr:
		if op != token.EQL && op != token.NEQ {
			return m.symBinop(op, t, x, y)
		}
	}
	switch op {
	case token.ADD:
		switch x.(type) {
		case int:
			return x.(int) + y.(int)
		case int8:
			return x.(int8) + y.(int8)
		case int16:
			return x.(int16) + y.(int16)
		case int32:
			return x.(int32) + y.(int32)
		case int64:
			return x.(int64) + y.(int64)
		case uint:
			return x.(uint) + y.(uint)
		case uint8:
			return x.(uint8) + y.(uint8)
		case uint16:
			return x.(uint16) + y.(uint16)
		case uint32:
			return x.(uint32) + y.(uint32)
		case uint64:
			return x.(uint64) + y.(uint64)
		case uintptr:
			return x.(uintptr) + y.(uintptr)
		case float32:
			return x.(float32) + y.(float32)
		case float64:
			return x.(float64) + y.(float64)
		case string:
			return x.(string) + y.(string)
		}
	case token.SUB:
		switch x.(type) {
		case int:
			return x.(int) - y.(int)
		case int8:
			return x.(int8) - y.(int8)
		case int16:
			return x.(int16) - y.(int16)
		case int32:
			return x.(int32) - y.(int32)
		case int64:
			return x.(int64) - y.(int64)
		case uint:
			return x.(uint) - y.(uint)
		case uint8:
			return x.(uint8) - y.(uint8)
		case uint16:
			return x.(uint16) - y.(uint16)
		case uint32:
			return x.(uint32) - y.(uint32)
		case uint64:
			return x.(uint64) - y.(uint64)
		case uintptr:
			return x.(uintptr) - y.(uintptr)
		case float32:
			return x.(float32) - y.(float32)
		case float64:
			return x.(float64) - y.(float64)
		}
	case token.MUL:
		switch x.(type) {
		case int:
			return x.(int) * y.(int)
		case int8:
			return x.(int8) * y.(int8)
		case int16:
			return x.(int16) * y.(int16)
		case int32:
			return x.(int32) * y.(int32)
		case int64:
			return x.(int64) * y.(int64)
		case uint:
			return x.(uint) * y.(uint)
		case uint8:
			return x.(uint8) * y.(uint8)
		case uint16:
			return x.(uint16) * y.(uint16)
		case uint32:
			return x.(uint32) * y.(uint32)
		case uint64:
			return x.(uint64) * y.(uint64)
		case uintptr:
			return x.(uintptr) * y.(uintptr)
		case float32:
			return x.(float32) * y.(float32)
		case float64:
			return x.(float64) * y.(float64)
		}
	case token.QUO:
		if b, ok := bitsOf(y); ok && b == 0 {
			panic("runtime error: integer divide by zero")
		}
		switch x.(type) {
		case int:
			return x.(int) / y.(int)
		case int8:
			return x.(int8) / y.(int8)
		case int16:
			return x.(int16) / y.(int16)
		case int32:
			return x.(int32) / y.(int32)
		case int64:
			return x.(int64) / y.(int64)
		case uint:
			return x.(uint) / y.(uint)
		case uint8:
			return x.(uint8) / y.(uint8)
		case uint16:
			return x.(uint16) / y.(uint16)
		case uint32:
			return x.(uint32) / y.(uint32)
		case uint64:
			return x.(uint64) / y.(uint64)
		case uintptr:
			return x.(uintptr) / y.(uintptr)
		case float32:
			return x.(float32) / y.(float32)
		case float64:
			return x.(float64) / y.(float64)
		}
	case token.REM:
		if b, ok := bitsOf(y); ok && b == 0 {
			panic("runtime error: integer divide by zero")
		}
		switch x.(type) {
		case int:
			return x.(int) % y.(int)
		case int8:
			return x.(int8) % y.(int8)
		case int16:
			return x.(int16) % y.(int16)
		case int32:
			return x.(int32) % y.(int32)
		case int64:
			return x.(int64) % y.(int64)
		case uint:
			return x.(uint) % y.(uint)
		case uint8:
			return x.(uint8) % y.(uint8)
		case uint16:
			return x.(uint16) % y.(uint16)
		case uint32:
			return x.(uint32) % y.(uint32)
		case uint64:
			return x.(uint64) % y.(uint64)
		case uintptr:
			return x.(uintptr) % y.(uintptr)
		}
	case token.AND:
		switch x.(type) {
		case int:
			return x.(int) & y.(int)
		case int8:
			return x.(int8) & y.(int8)
		case int16:
			return x.(int16) & y.(int16)
		case int32:
			return x.(int32) & y.(int32)
		case int64:
			return x.(int64) & y.(int64)
		case uint:
			return x.(uint) & y.(uint)
		case uint8:
			return x.(uint8) & y.(uint8)
		case uint16:
			return x.(uint16) & y.(uint16)
		case uint32:
			return x.(uint32) & y.(uint32)
		case uint64:
			return x.(uint64) & y.(uint64)
		case uintptr:
			return x.(uintptr) & y.(uintptr)
		}
	case token.OR:
		switch x.(type) {
		case int:
			return x.(int) | y.(int)
		case int8:
			return x.(int8) | y.(int8)
		case int16:
			return x.(int16) | y.(int16)
		case int32:
			return x.(int32) | y.(int32)
		case int64:
			return x.(int64) | y.(int64)
		case uint:
			return x.(uint) | y.(uint)
		case uint8:
			return x.(uint8) | y.(uint8)
		case uint16:
			return x.(uint16) | y.(uint16)
		case uint32:
			return x.(uint32) | y.(uint32)
		case uint64:
			return x.(uint64) | y.(uint64)
		case uintptr:
			return x.(uintptr) | y.(uintptr)
		}
	case token.XOR:
		switch x.(type) {
		case int:
			return x.(int) ^ y.(int)
		case int8:
			return x.(int8) ^ y.(int8)
		case int16:
			return x.(int16) ^ y.(int16)
		case int32:
			return x.(int32) ^ y.(int32)
		case int64:
			return x.(int64) ^ y.(int64)
		case uint:
			return x.(uint) ^ y.(uint)
		case uint8:
			return x.(uint8) ^ y.(uint8)
		case uint16:
			return x.(uint16) ^ y.(uint16)
		case uint32:
			return x.(uint32) ^ y.(uint32)
		case uint64:
			return x.(uint64) ^ y.(uint64)
		case uintptr:
			return x.(uintptr) ^ y.(uintptr)
		}
	case token.AND_NOT:
		switch x.(type) {
		case int:
			return x.(int) &^ y.(int)
		case int8:
			return x.(int8) &^ y.(int8)
		case int16:
			return x.(int16) &^ y.(int16)
		case int32:
			return x.(int32) &^ y.(int32)
		case int64:
			return x.(int64) &^ y.(int64)
		case uint:
			return x.(uint) &^ y.(uint)
		case uint8:
			return x.(uint8) &^ y.(uint8)
		case uint16:
			return x.(uint16) &^ y.(uint16)
		case uint32:
			return x.(uint32) &^ y.(uint32)
		case uint64:
			return x.(uint64) &^ y.(uint64)
		case uintptr:
			return x.(uintptr) &^ y.(uintptr)
		}
	case token.SHL:
		if kindSigned(kindOf(y)) && asInt64(y) < 0 {
			panic("runtime error: negative shift amount")
		}
		yb, _ := bitsOf(y)
		switch x.(type) {
		case int:
			return x.(int) << yb
		case int8:
			return x.(int8) << yb
		case int16:
			return x.(int16) << yb
		case int32:
			return x.(int32) << yb
		case int64:
			return x.(int64) << yb
		case uint:
			return x.(uint) << yb
		case uint8:
			return x.(uint8) << yb
		case uint16:
			return x.(uint16) << yb
		case uint32:
			return x.(uint32) << yb
		case uint64:
			return x.(uint64) << yb
		case uintptr:
			return x.(uintptr) << yb
		}
	case token.SHR:
		if kindSigned(kindOf(y)) && asInt64(y) < 0 {
			panic("runtime error: negative shift amount")
		}
		yb, _ := bitsOf(y)
		switch x.(type) {
		case int:
			return x.(int) >> yb
		case int8:
			return x.(int8) >> yb
		case int16:
			return x.(int16) >> yb
		case int32:
			return x.(int32) >> yb
		case int64:
			return x.(int64) >> yb
		case uint:
			return x.(uint) >> yb
		case uint8:
			return x.(uint8) >> yb
		case uint16:
			return x.(uint16) >> yb
		case uint32:
			return x.(uint32) >> yb
		case uint64:
			return x.(uint64) >> yb
		case uintptr:
			return x.(uintptr) >> yb
		}
	case token.LSS:
		switch x.(type) {
		case int:
			return x.(int) < y.(int)
		case int8:
			return x.(int8) < y.(int8)
		case int16:
			return x.(int16) < y.(int16)
		case int32:
			return x.(int32) < y.(int32)
		case int64:
			return x.(int64) < y.(int64)
		case uint:
			return x.(uint) < y.(uint)
		case uint8:
			return x.(uint8) < y.(uint8)
		case uint16:
			return x.(uint16) < y.(uint16)
		case uint32:
			return x.(uint32) < y.(uint32)
		case uint64:
			return x.(uint64) < y.(uint64)
		case uintptr:
			return x.(uintptr) < y.(uintptr)
		case float32:
			return x.(float32) < y.(float32)
		case float64:
			return x.(float64) < y.(float64)
		case string:
			return x.(string) < y.(string)
		}
	case token.LEQ:
		switch x.(type) {
		case int:
			return x.(int) <= y.(int)
		case int8:
			return x.(int8) <= y.(int8)
		case int16:
			return x.(int16) <= y.(int16)
		case int32:
			return x.(int32) <= y.(int32)
		case int64:
			return x.(int64) <= y.(int64)
		case uint:
			return x.(uint) <= y.(uint)
		case uint8:
			return x.(uint8) <= y.(uint8)
		case uint16:
			return x.(uint16) <= y.(uint16)
		case uint32:
			return x.(uint32) <= y.(uint32)
		case uint64:
			return x.(uint64) <= y.(uint64)
		case uintptr:
			return x.(uintptr) <= y.(uintptr)
		case float32:
			return x.(float32) <= y.(float32)
		case float64:
			return x.(float64) <= y.(float64)
		case string:
			return x.(string) <= y.(string)
		}
	case token.EQL:
		return m.eqnil(t, x, y)
	case token.NEQ:
		return m.notV(m.eqnil(t, x, y))
	case token.GTR:
		return m.binop(token.LSS, t, y, x)
	case token.GEQ:
		return m.binop(token.LEQ, t, y, x)
	}
	panic(fmt.Sprintf("symgo: internal: invalid binary op: %T %s %T", x, op, y))
}

func (m *Machine) notV(v value) value {
	switch b := v.(type) {
	case bool:
		return !b
	case *Sym:
		return wrap(m.F.Not(b.T), types.Bool)
	}
	panic(fmt.Sprintf("symgo: internal: notV: %T", v))
}

func (m *Machine) andV(a, b value) value {
	if x, ok := a.(bool); ok {
		if !x {
			return false
		}
		return b
	}
	if y, ok := b.(bool); ok {
		if !y {
			return false
		}
		return a
	}
	return wrap(m.F.And(a.(*Sym).T, b.(*Sym).T), types.Bool)
}

func (m *Machine) orV(a, b value) value {
	return m.notV(m.andV(m.notV(a), m.notV(b)))
}

// eqnil returns x == y (a bool or a symbolic bool) for type t.
func (m *Machine) eqnil(t types.Type, x, y value) value {
	switch t.Underlying().(type) {
	case *types.Map, *types.Signature, *types.Slice:
		switch x := x.(type) {
		case *amap:
			return (x != nil) == (y.(*amap) != nil)
		case *ssa.Function:
			switch y := y.(type) {
			case *ssa.Function:
				return (x != nil) == (y != nil)
			case *closure:
				return true
			}
		case *closure:
			return (x != nil) == (y.(*ssa.Function) != nil)
		case []value:
			return (x != nil) == (y.([]value) != nil)
		}
		panic(fmt.Sprintf("symgo: internal: eqnil(%s): illegal dynamic type: %T", t, x))
	}
	return m.equalsV(t, x, y)
}

func sameType(x, y types.Type) bool {
	if x == nil {
		return y == nil
	}
	return y != nil && types.Identical(x, y)
}

// equalsV is Go's == for comparable values; the result is a bool or a symbolic bool.
func (m *Machine) equalsV(t types.Type, x, y value) value {
	switch x := x.(type) {
	case *Sym:
		return wrap(m.F.Eq(x.T, m.termOf(y)), types.Bool)
	case *SymStr:
		return wrap(m.bytesEqTerm(x.b, strBytes(y)), types.Bool)
	}
	switch y := y.(type) {
	case *Sym:
		return wrap(m.F.Eq(m.termOf(x), y.T), types.Bool)
	case *SymStr:
		return wrap(m.bytesEqTerm(strBytes(x), y.b), types.Bool)
	}
	switch x := x.(type) {
	case bool:
		return x == y.(bool)
	case int:
		return x == y.(int)
	case int8:
		return x == y.(int8)
	case int16:
		return x == y.(int16)
	case int32:
		return x == y.(int32)
	case int64:
		return x == y.(int64)
	case uint:
		return x == y.(uint)
	case uint8:
		return x == y.(uint8)
	case uint16:
		return x == y.(uint16)
	case uint32:
		return x == y.(uint32)
	case uint64:
		return x == y.(uint64)
	case uintptr:
		return x == y.(uintptr)
	case float32:
		return x == y.(float32)
	case float64:
		return x == y.(float64)
	case complex64:
		return x == y.(complex64)
	case complex128:
		return x == y.(complex128)
	case string:
		return x == y.(string)
	case *value:
		return x == y.(*value)
	case *chanObj:
		return x == y.(*chanObj)
	case unsafe.Pointer:
		return x == y.(unsafe.Pointer)
	case structure:
		ys := y.(structure)
		tStruct := t.Underlying().(*types.Struct)
		var acc value = true
		for i, n := 0, tStruct.NumFields(); i < n; i++ {
			if f := tStruct.Field(i); f.Name() != "_" {
				acc = m.andV(acc, m.equalsV(f.Type(), x[i], ys[i]))
				if b, ok := acc.(bool); ok && !b {
					return false
				}
			}
		}
		return acc
	case array:
		ya := y.(array)
		tElt := t.Underlying().(*types.Array).Elem()
		var acc value = true
		for i, xi := range x {
			acc = m.andV(acc, m.equalsV(tElt, xi, ya[i]))
			if b, ok := acc.(bool); ok && !b {
				return false
			}
		}
		return acc
	case iface:
		yi := y.(iface)
		if !sameType(x.t, yi.t) {
			return false
		}
		if x.t == nil {
			return true
		}
		return m.equalsV(x.t, x.v, yi.v)
	case *ssa.Function:
		// only reachable through interface comparison; funcs are not comparable
		panic("runtime error: comparing uncomparable type func")
	}
	panic(fmt.Sprintf("comparing uncomparable type %s (%T)", t, x))
}

func (m *Machine) unop(instr *ssa.UnOp, x value) value {
	switch instr.Op {
	case token.ARROW:
		v, ok := m.chanRecv(x.(*chanObj))
		if !ok {
			v = zero(instr.X.Type().Underlying().(*types.Chan).Elem())
		}
		if instr.CommaOk {
			v = tuple{v, ok}
		}
		return v
	case token.SUB:
		switch x := x.(type) {
		case *Sym:
			return wrap(m.F.Un(OpNeg, x.T), x.K)
		case int:
			return -x
		case int8:
			return -x
		case int16:
			return -x
		case int32:
			return -x
		case int64:
			return -x
		case uint:
			return -x
		case uint8:
			return -x
		case uint16:
			return -x
		case uint32:
			return -x
		case uint64:
			return -x
		case uintptr:
			return -x
		case float32:
			return -x
		case float64:
			return -x
		}
	case token.MUL:
		p := x.(*value)
		if p == nil {
			panic("runtime error: invalid memory address or nil pointer dereference")
		}
		return load(deref(instr.X.Type()), p)
	case token.NOT:
		return m.notV(x)
	case token.XOR:
		switch x := x.(type) {
		case *Sym:
			return wrap(m.F.Un(OpNot, x.T), x.K)
		case int:
			return ^x
		case int8:
			return ^x
		case int16:
			return ^x
		case int32:
			return ^x
		case int64:
			return ^x
		case uint:
			return ^x
		case uint8:
			return ^x
		case uint16:
			return ^x
		case uint32:
			return ^x
		case uint64:
			return ^x
		case uintptr:
			return ^x
		}
	}
	panic(fmt.Sprintf("symgo: internal: invalid unary op %s %T", instr.Op, x))
}

func (m *Machine) typeAssert(instr *ssa.TypeAssert, itf iface) value {
	var v value
	err := ""
	if itf.t == nil {
		err = fmt.Sprintf("interface conversion: interface is nil, not %s", instr.AssertedType)
	} else if idst, ok := instr.AssertedType.Underlying().(*types.Interface); ok {
		v = itf
		if meth, _ := types.MissingMethod(itf.t, idst, true); meth != nil {
			err = fmt.Sprintf("interface conversion: %v is not %v: missing method %s", itf.t, idst, meth.Name())
		}
	} else if types.Identical(itf.t, instr.AssertedType) {
		v = itf.v
	} else {
		err = fmt.Sprintf("interface conversion: interface is %s, not %s", itf.t, instr.AssertedType)
	}
	if err != "" {
		if !instr.CommaOk {
			panic(err)
		}
		return tuple{zero(instr.AssertedType), false}
	}
	if instr.CommaOk {
		return tuple{v, true}
	}
	return v
}

func (m *Machine) callBuiltin(caller *frame, callpos token.Pos, fn *ssa.Builtin, args []value) value {
	switch fn.Name() {
	case "append":
		if len(args) == 1 {
			return args[0]
		}
		if isStrVal(args[1]) {
			arg0 := args[0].([]value)
			return append(arg0, strBytes(args[1])...)
		}
		src := args[1].([]value)
		dst := args[0].([]value)
		for _, e := range src {
			dst = append(dst, copyVal(e))
		}
		return dst
	case "copy":
		var src []value
		if isStrVal(args[1]) {
			src = strBytes(args[1])
		} else {
			src = args[1].([]value)
		}
		dst := args[0].([]value)
		n := len(src)
		if len(dst) < n {
			n = len(dst)
		}
		if n == 0 {
			return 0
		}
		// overlapping-safe element-wise copy with value semantics
		tmp := make([]value, n)
		for i := 0; i < n; i++ {
			tmp[i] = copyVal(src[i])
		}
		copy(dst, tmp)
		return n
	case "close":
		m.chanClose(args[0].(*chanObj))
		return nil
	case "delete":
		mp := args[0].(*amap)
		if mp != nil {
			m.mapDelete(mp, args[1])
		}
		return nil
	case "clear":
		switch x := args[0].(type) {
		case *amap:
			if x != nil {
				for _, e := range x.ents {
					e.deleted = true
				}
				x.ents = nil
				x.idx = map[interface{}]*mapEntry{}
				x.nsym = 0
			}
		case []value:
			if len(x) > 0 {
				elemT := fn.Type().(*types.Signature).Params().At(0).Type().Underlying().(*types.Slice).Elem()
				for i := range x {
					x[i] = zero(elemT)
				}
			}
		}
		return nil
	case "print", "println":
		return nil
	case "len":
		switch x := args[0].(type) {
		case string:
			return len(x)
		case *SymStr:
			return len(x.b)
		case array:
			return len(x)
		case *value:
			return len((*x).(array))
		case []value:
			return len(x)
		case *amap:
			if x == nil {
				return 0
			}
			return x.len()
		case *chanObj:
			if x == nil {
				return 0
			}
			return len(x.buf)
		default:
			panic(fmt.Sprintf("symgo: internal: len: illegal operand: %T", x))
		}
	case "cap":
		switch x := args[0].(type) {
		case array:
			return cap(x)
		case *value:
			return cap((*x).(array))
		case []value:
			return cap(x)
		case *chanObj:
			if x == nil {
				return 0
			}
			return x.cap
		default:
			panic(fmt.Sprintf("symgo: internal: cap: illegal operand: %T", x))
		}
	case "min", "max":
		x := args[0]
		for _, a := range args[1:] {
			var lt value
			if fn.Name() == "min" {
				lt = m.binop(token.LSS, nil, a, x)
			} else {
				lt = m.binop(token.LSS, nil, x, a)
			}
			if s, ok := lt.(*Sym); ok {
				x = wrap(m.F.Ite(s.T, m.termOf(a), m.termOf(x)), kindOf(x))
			} else if lt.(bool) {
				x = a
			}
		}
		return x
	case "panic":
		panic(targetPanic{args[0]})
	case "recover":
		return doRecover(caller)
	case "ssa:wrapnilchk":
		recv := args[0]
		if recv.(*value) == nil {
			panic(fmt.Sprintf("value method (%s).%s called using nil *%s pointer", args[1], args[2], args[1]))
		}
		return recv
	case "ssa:deferstack":
		return &caller.defers
	case "String": // unsafe.String(ptr *byte, len)
		n := m.intArg(args[1])
		if n == 0 {
			return ""
		}
		bs := m.bytesAt(args[0].(*value), int(n))
		return mkStr(bs)
	case "StringData": // unsafe.StringData(s) *byte
		b := append([]value(nil), strBytes(args[0])...)
		if len(b) == 0 {
			return (*value)(nil)
		}
		m.registerBacking(b)
		return &b[0]
	case "SliceData": // unsafe.SliceData(s) *T
		s := args[0].([]value)
		if cap(s) == 0 {
			return (*value)(nil)
		}
		s = s[:cap(s)]
		m.registerBacking(s)
		return &s[0]
	case "Slice": // unsafe.Slice(ptr, len)
		n := m.intArg(args[1])
		p := args[0].(*value)
		if p == nil {
			return []value(nil)
		}
		return m.bytesAt(p, int(n))
	}
	panic("symgo: unknown built-in: " + fn.Name())
}

// Backing arrays registered by SliceData/StringData so that unsafe.String/Slice can
// recover the slice from the element pointer.
type backing struct {
	s []value
}

var _ = strings.Builder{}

func (m *Machine) registerBacking(s []value) {
	m.backings = append(m.backings, backing{s})
	if len(m.backings) > 64 {
		m.backings = m.backings[len(m.backings)-32:]
	}
}

func (m *Machine) bytesAt(p *value, n int) []value {
	for i := len(m.backings) - 1; i >= 0; i-- {
		b := m.backings[i].s
		if len(b) > 0 && p == &b[0] {
			if n > len(b) {
				panic("symgo: unsafe.String/Slice beyond backing array")
			}
			return b[:n:n]
		}
	}
	for i := 0; i < 16; i++ {
		b := m.ring[i].s
		if len(b) > 0 && p == &b[0] {
			if n > len(b) {
				panic("symgo: unsafe.String/Slice beyond slice length")
			}
			return b[:n:n]
		}
	}
	panic("symgo: unsafe.String/Slice on unknown pointer")
}

func rangeIter(x value, t types.Type) iter {
	switch x := x.(type) {
	case *amap:
		if x == nil {
			return &amapIter{}
		}
		return &amapIter{ents: append([]*mapEntry(nil), x.ents...)}
	case string:
		return &stringIter{s: x}
	}
	panic(fmt.Sprintf("symgo: cannot range over %T", x))
}

type stringIter struct {
	s string
	i int
}

func (it *stringIter) next() tuple {
	if it.i >= len(it.s) {
		return tuple{false, nil, nil}
	}
	for j, r := range it.s[it.i:] {
		_ = j
		k := it.i
		n := len(string(r))
		if r == 0xFFFD {
			n = 1
		}
		it.i += n
		return tuple{true, k, r}
	}
	return tuple{false, nil, nil}
}

// conv converts x of type t_src to t_dst.
func (m *Machine) conv(t_dst, t_src types.Type, x value) value {
	ut_src := t_src.Underlying()
	ut_dst := t_dst.Underlying()

	switch ut_src := ut_src.(type) {
	case *types.Pointer:
		if b, ok := ut_dst.(*types.Basic); ok && b.Kind() == types.UnsafePointer {
			return unsafe.Pointer(x.(*value))
		}
	case *types.Slice:
		// []byte or []rune -> string
		switch ut_src.Elem().Underlying().(*types.Basic).Kind() {
		case types.Byte:
			return mkStr(x.([]value))
		case types.Rune:
			xs := x.([]value)
			r := make([]rune, 0, len(xs))
			for i := range xs {
				r = append(r, xs[i].(rune))
			}
			return string(r)
		}
	case *types.Basic:
		if s, ok := x.(*SymStr); ok {
			switch ut_dst := ut_dst.(type) {
			case *types.Slice:
				if ut_dst.Elem().Underlying().(*types.Basic).Kind() == types.Byte {
					return append([]value{}, s.b...)
				}
			case *types.Basic:
				if ut_dst.Kind() == types.String {
					return s
				}
			}
			panic("symgo: unsupported conversion of symbolic string")
		}
		if s, ok := x.(*Sym); ok {
			dk := ut_dst.(*types.Basic).Kind()
			if ut_dst.(*types.Basic).Info()&types.IsInteger == 0 {
				panic(fmt.Sprintf("symgo: conversion of symbolic %v to %s", s.K, t_dst))
			}
			return wrap(m.F.Resize(s.T, kindWidth(dk), kindSigned(s.K)), dk)
		}
		if s, ok := x.(string); ok {
			switch ut_dst := ut_dst.(type) {
			case *types.Slice:
				switch ut_dst.Elem().Underlying().(*types.Basic).Kind() {
				case types.Rune:
					res := []value{}
					for _, r := range s {
						res = append(res, r)
					}
					return res
				case types.Byte:
					res := make([]value, len(s))
					for i := 0; i < len(s); i++ {
						res[i] = s[i]
					}
					return res
				}
			case *types.Basic:
				if ut_dst.Kind() == types.String {
					return s
				}
			}
			break
		}
		if ut_src.Kind() == types.UnsafePointer {
			if p, ok := x.(unsafe.Pointer); ok {
				if _, isPtr := ut_dst.(*types.Pointer); isPtr {
					return (*value)(p)
				}
				if b, ok := ut_dst.(*types.Basic); ok && b.Kind() == types.UnsafePointer {
					return p
				}
			}
			return zero(t_dst)
		}
		if ut_src.Info()&types.IsInteger != 0 {
			if db, ok := ut_dst.(*types.Basic); ok && db.Kind() == types.String {
				return string(rune(asInt64(x)))
			}
		}
		if ut_src.Info()&types.IsNumeric != 0 {
			db, ok := ut_dst.(*types.Basic)
			if !ok {
				break
			}
			kind := db.Kind()
			switch xx := x.(type) {
			case float32:
				return convFloat(float64(xx), kind)
			case float64:
				return convFloat(xx, kind)
			case complex64, complex128:
				return x
			}
			bits, _ := bitsOf(x)
			sk := kindOf(x)
			switch kind {
			case types.Float32:
				if kindSigned(sk) {
					return float32(asInt64(x))
				}
				return float32(bits)
			case types.Float64:
				if kindSigned(sk) {
					return float64(asInt64(x))
				}
				return float64(bits)
			}
			if kindSigned(sk) {
				bits = uint64(asInt64(x))
			}
			return fromBits(bits, kind)
		}
	}
	panic(fmt.Sprintf("symgo: unsupported conversion: %s  -> %s, dynamic type %T", t_src, t_dst, x))
}

func convFloat(x float64, kind types.BasicKind) value {
	switch kind {
	case types.Int:
		return int(x)
	case types.Int8:
		return int8(x)
	case types.Int16:
		return int16(x)
	case types.Int32:
		return int32(x)
	case types.Int64:
		return int64(x)
	case types.Uint:
		return uint(x)
	case types.Uint8:
		return uint8(x)
	case types.Uint16:
		return uint16(x)
	case types.Uint32:
		return uint32(x)
	case types.Uint64:
		return uint64(x)
	case types.Uintptr:
		return uintptr(x)
	case types.Float32:
		return float32(x)
	case types.Float64:
		return x
	}
	panic("convFloat")
}

func sliceToArrayPointer(t_dst, t_src types.Type, x value) value {
	if _, ok := t_src.Underlying().(*types.Slice); ok {
		if ptr, ok := t_dst.Underlying().(*types.Pointer); ok {
			if arr, ok := ptr.Elem().Underlying().(*types.Array); ok {
				x := x.([]value)
				if arr.Len() > int64(len(x)) {
					panic("runtime error: cannot convert slice with length " + fmt.Sprint(len(x)) + " to array or pointer to array with length " + fmt.Sprint(arr.Len()))
				}
				if x == nil {
					return zero(t_dst)
				}
				v := value(array(x[:arr.Len()]))
				return &v
			}
		}
	}
	panic(fmt.Sprintf("symgo: internal: unsupported conversion: %s  -> %s, dynamic type %T", t_src, t_dst, x))
}
