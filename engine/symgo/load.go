package symgo

// Front end: go/packages + go/ssa over /repo's current working tree with the harness
// injected through an overlay. Nothing is cached between runs and /repo is never written
// (go.mod/go.sum are copied to a scratch dir and passed with -modfile).

import (
	"fmt"
	"io"
	"os"
	"path/filepath"
	"strings"

	"golang.org/x/tools/go/packages"
	"golang.org/x/tools/go/ssa"
	"golang.org/x/tools/go/ssa/ssautil"
)

type Loaded struct {
	Prog    *ssa.Program
	Pkgs    map[string]*ssa.Package // by import path
	Scratch string
	Fset    interface{}
}

func copyFile(src, dst string) error {
	in, err := os.Open(src)
	if err != nil {
		return err
	}
	defer in.Close()
	out, err := os.Create(dst)
	if err != nil {
		return err
	}
	defer out.Close()
	_, err = io.Copy(out, in)
	return err
}

// Load loads patterns from module directory dir with overlay files (absolute virtual path -> content).
func Load(dir string, patterns []string, overlay map[string][]byte, tags string) (*Loaded, error) {
	scratch, err := os.MkdirTemp("", "verif-load-")
	if err != nil {
		return nil, err
	}
	if err := copyFile(filepath.Join(dir, "go.mod"), filepath.Join(scratch, "go.mod")); err != nil {
		return nil, err
	}
	if err := copyFile(filepath.Join(dir, "go.sum"), filepath.Join(scratch, "go.sum")); err != nil {
		return nil, err
	}
	flags := []string{"-modfile=" + filepath.Join(scratch, "go.mod")}
	if tags != "" {
		flags = append(flags, "-tags="+tags)
	}
	env := append(os.Environ(), "GOFLAGS=-mod=mod", "GOPROXY=off", "GOSUMDB=off", "GOTOOLCHAIN=local", "GOWORK=off")
	cfg := &packages.Config{
		Mode:       packages.LoadAllSyntax,
		Dir:        dir,
		Overlay:    overlay,
		BuildFlags: flags,
		Env:        env,
	}
	initial, err := packages.Load(cfg, patterns...)
	if err != nil {
		os.RemoveAll(scratch)
		return nil, err
	}
	var errs []string
	packages.Visit(initial, nil, func(p *packages.Package) {
		for _, e := range p.Errors {
			errs = append(errs, e.Error())
		}
	})
	if len(errs) > 0 {
		os.RemoveAll(scratch)
		if len(errs) > 20 {
			errs = errs[:20]
		}
		return nil, fmt.Errorf("package errors:\n%s", strings.Join(errs, "\n"))
	}
	prog, _ := ssautil.AllPackages(initial, ssa.InstantiateGenerics|ssa.SanityCheckFunctions&0)
	prog.Build()
	l := &Loaded{Prog: prog, Pkgs: map[string]*ssa.Package{}, Scratch: scratch}
	for _, p := range prog.AllPackages() {
		l.Pkgs[p.Pkg.Path()] = p
	}
	return l, nil
}

func (l *Loaded) Close() {
	if l.Scratch != "" {
		os.RemoveAll(l.Scratch)
	}
}
