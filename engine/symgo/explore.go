package symgo

// Path explorer: a LIFO work queue of traces, N workers (one Machine = one interpreter
// + one solver process each).

import (
	"fmt"
	"os"
	"sort"
	"strings"
	"sync"
	"time"

	"golang.org/x/tools/go/ssa"
)

type ExploreConfig struct {
	Workers       int
	MaxPaths      int // 0 = unlimited; exceeding it makes the run inconclusive
	Machine       Config
	Deadline      time.Time
	MaxViolations int // per label
	KeepSamples   int
	Progress      bool
}

type Stats struct {
	Harness      string
	Paths        int
	Complete     int
	Assumed      int // paths cut by vAssume
	Budget       map[string]int
	Inconclusive map[string]int
	Panics       int
	Decisions    int
	Steps        int64
	MaxSteps     int
	Asserts      int
	Discharged   int
	Trivial      int
	Covers       map[string]int
	Funcs        map[string]bool
	Violations   []*Violation
	Samples      []*Sample
	Models       []ModelSample // complete paths with a model and predicted observations
	Solver       SolverStats
	Imprecise    int
	Wall         time.Duration
	Truncated    bool
	MaxAlloc     int
}

type ModelSample struct {
	Inputs   []ReplayInput
	Observed []Observation
	Outcome  string
}

func (s *Stats) Clean() bool {
	return len(s.Budget) == 0 && len(s.Inconclusive) == 0 && !s.Truncated
}

type explorer struct {
	mu      sync.Mutex
	cond    *sync.Cond
	queue   [][]Dec
	active  int
	stop    bool
	st      *Stats
	cfg     ExploreConfig
	perLbl  map[string]int
	started time.Time
}

func Explore(prog *ssa.Program, fn *ssa.Function, initPkgs []*ssa.Package, cfg ExploreConfig) (*Stats, error) {
	if cfg.Workers <= 0 {
		cfg.Workers = 1
	}
	if cfg.MaxViolations <= 0 {
		cfg.MaxViolations = 3
	}
	ex := &explorer{cfg: cfg, perLbl: map[string]int{}, started: time.Now()}
	ex.cond = sync.NewCond(&ex.mu)
	ex.st = &Stats{Harness: fn.Name(), Budget: map[string]int{}, Inconclusive: map[string]int{}, Covers: map[string]int{}, Funcs: map[string]bool{}}
	ex.queue = [][]Dec{nil}
	var wg sync.WaitGroup
	errs := make(chan error, cfg.Workers)
	for w := 0; w < cfg.Workers; w++ {
		wg.Add(1)
		go func(w int) {
			defer wg.Done()
			mc := cfg.Machine
			m, err := NewMachine(prog, mc)
			if err != nil {
				errs <- err
				ex.mu.Lock()
				ex.stop = true
				ex.cond.Broadcast()
				ex.mu.Unlock()
				return
			}
			defer func() {
				ex.mu.Lock()
				ex.st.Solver.Queries += m.S.Stats.Queries
				ex.st.Solver.Sat += m.S.Stats.Sat
				ex.st.Solver.Unsat += m.S.Stats.Unsat
				ex.st.Solver.Unknown += m.S.Stats.Unknown
				ex.st.Solver.Errors += m.S.Stats.Errors
				ex.st.Solver.Time += m.S.Stats.Time
				ex.mu.Unlock()
				m.Close()
			}()
			for {
				tr, ok := ex.next()
				if !ok {
					return
				}
				res := ex.runOne(m, fn, initPkgs, tr)
				ex.done(res)
			}
		}(w)
	}
	wg.Wait()
	ex.st.Wall = time.Since(ex.started)
	select {
	case err := <-errs:
		return ex.st, err
	default:
	}
	return ex.st, nil
}

func (ex *explorer) runOne(m *Machine, fn *ssa.Function, initPkgs []*ssa.Package, tr []Dec) (res *PathResult) {
	defer func() {
		if r := recover(); r != nil {
			// interpreter bug or replay divergence: inconclusive, never a pass
			res = &PathResult{Outcome: fmt.Sprintf("inconclusive:executor panic: %v", r), Covers: map[string]bool{}}
		}
	}()
	return m.RunPath(fn, initPkgs, tr)
}

func (ex *explorer) next() ([]Dec, bool) {
	ex.mu.Lock()
	defer ex.mu.Unlock()
	for {
		if ex.stop {
			return nil, false
		}
		if n := len(ex.queue); n > 0 {
			tr := ex.queue[n-1]
			ex.queue = ex.queue[:n-1]
			ex.active++
			return tr, true
		}
		if ex.active == 0 {
			ex.cond.Broadcast()
			return nil, false
		}
		ex.cond.Wait()
	}
}

func (ex *explorer) done(res *PathResult) {
	ex.mu.Lock()
	defer ex.mu.Unlock()
	ex.active--
	st := ex.st
	st.Paths++
	st.Decisions += res.Decisions
	st.Steps += int64(res.Steps)
	if res.Steps > st.MaxSteps {
		st.MaxSteps = res.Steps
	}
	if res.Allocated > st.MaxAlloc {
		st.MaxAlloc = res.Allocated
	}
	st.Asserts += res.Asserts
	st.Discharged += res.Discharged
	st.Trivial += res.Trivial
	st.Imprecise += res.Imprecise
	for c := range res.Covers {
		st.Covers[c]++
	}
	for f := range res.Funcs {
		st.Funcs[f] = true
	}
	switch {
	case res.Outcome == "ok" || res.Outcome == "stop":
		st.Complete++
	case res.Outcome == "assume":
		st.Assumed++
	case strings.HasPrefix(res.Outcome, "budget:"):
		st.Budget[res.Outcome]++
	case strings.HasPrefix(res.Outcome, "inconclusive:"):
		k := res.Outcome
		if len(k) > 1500 {
			k = k[:1500]
		}
		st.Inconclusive[k]++
	case strings.HasPrefix(res.Outcome, "panic:") || strings.HasPrefix(res.Outcome, "fatal:"):
		st.Complete++
		st.Panics++
	}
	for _, v := range res.Violations {
		if ex.perLbl[v.Label] < ex.cfg.MaxViolations {
			ex.perLbl[v.Label]++
			st.Violations = append(st.Violations, v)
		}
	}
	if res.Sample != nil && len(st.Samples) < ex.cfg.KeepSamples {
		st.Samples = append(st.Samples, res.Sample)
	}
	if res.ModelInputs != nil && res.Outcome == "ok" {
		// reservoir-free spread: keep every k-th
		if len(st.Models) < 4*ex.cfg.KeepSamples+8 || st.Paths%97 == 0 {
			st.Models = append(st.Models, ModelSample{Inputs: res.ModelInputs, Observed: res.Observed, Outcome: res.Outcome})
		}
	}
	for _, t := range res.NewTasks {
		ex.queue = append(ex.queue, t)
	}
	if ex.cfg.MaxPaths > 0 && st.Paths >= ex.cfg.MaxPaths && (len(ex.queue) > 0 || ex.active > 0) {
		st.Truncated = true
		ex.stop = true
	}
	if !ex.cfg.Deadline.IsZero() && time.Now().After(ex.cfg.Deadline) && (len(ex.queue) > 0 || ex.active > 0) {
		st.Truncated = true
		ex.stop = true
	}
	if ex.cfg.Progress && st.Paths%500 == 0 {
		fmt.Fprintf(os.Stderr, "  [%s] paths=%d queue=%d violations=%d %.0fs\n", st.Harness, st.Paths, len(ex.queue), len(st.Violations), time.Since(ex.started).Seconds())
	}
	ex.cond.Broadcast()
}

func (s *Stats) Summary() string {
	var sb strings.Builder
	fmt.Fprintf(&sb, "%s: paths=%d complete=%d assumed=%d panics=%d decisions=%d steps=%d asserts=%d discharged=%d (trivial %d) violations=%d queries=%d (sat %d unsat %d unknown %d) solver=%.1fs wall=%.1fs",
		s.Harness, s.Paths, s.Complete, s.Assumed, s.Panics, s.Decisions, s.Steps, s.Asserts, s.Discharged, s.Trivial, len(s.Violations),
		s.Solver.Queries, s.Solver.Sat, s.Solver.Unsat, s.Solver.Unknown, s.Solver.Time.Seconds(), s.Wall.Seconds())
	if len(s.Budget) > 0 {
		fmt.Fprintf(&sb, " BUDGET=%v", s.Budget)
	}
	if len(s.Inconclusive) > 0 {
		keys := make([]string, 0)
		for k := range s.Inconclusive {
			keys = append(keys, k)
		}
		sort.Strings(keys)
		fmt.Fprintf(&sb, " INCONCLUSIVE=%v", keys)
	}
	if s.Truncated {
		sb.WriteString(" TRUNCATED")
	}
	return sb.String()
}
