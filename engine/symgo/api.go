package symgo

// The harness API (functions v* defined in harness files zz_verif_*.go). In the
// executor they create symbolic inputs, fork, assume and assert; natively (replay)
// they read the recorded input vector (see harness/common/zz_verif_api.go).

import (
	"fmt"
	"go/types"
)

func (m *Machine) newInput(kind, tag string, k types.BasicKind) value {
	name := fmt.Sprintf("in%d_%s", len(m.inputs), sanitize(tag))
	t := m.F.Var(name, kindWidth(k))
	m.inputs = append(m.inputs, Input{Kind: kind, Tag: tag, T: t, K: k})
	return &Sym{T: t, K: k}
}

func sanitize(s string) string {
	b := []byte(s)
	for i, c := range b {
		if !(c >= 'a' && c <= 'z' || c >= 'A' && c <= 'Z' || c >= '0' && c <= '9' || c == '_') {
			b[i] = '_'
		}
	}
	return string(b)
}

func boolTerm(m *Machine, v value) *Term {
	switch b := v.(type) {
	case bool:
		return m.F.Bool(b)
	case *Sym:
		return b.T
	}
	panic(fmt.Sprintf("symgo: internal: harness API: expected bool, got %T", v))
}

var apiIntrinsics map[string]intrinsic

func init() {
	apiIntrinsics = map[string]intrinsic{
		"vByte": func(m *Machine, fr *frame, args []value) value {
			return m.newInput("byte", strArg(args[0]), types.Uint8)
		},
		"vBytes": func(m *Machine, fr *frame, args []value) value {
			n := int(m.intArg(args[1]))
			out := make([]value, n)
			for i := range out {
				out[i] = m.newInput("byte", fmt.Sprintf("%s_%d", strArg(args[0]), i), types.Uint8)
			}
			return out
		},
		"vInt64": func(m *Machine, fr *frame, args []value) value {
			return m.newInput("int64", strArg(args[0]), types.Int64)
		},
		"vInt": func(m *Machine, fr *frame, args []value) value {
			return m.newInput("int64", strArg(args[0]), types.Int)
		},
		"vInt8": func(m *Machine, fr *frame, args []value) value {
			return m.newInput("int64", strArg(args[0]), types.Int8)
		},
		"vInt32": func(m *Machine, fr *frame, args []value) value {
			return m.newInput("int64", strArg(args[0]), types.Int32)
		},
		"vUint32": func(m *Machine, fr *frame, args []value) value {
			return m.newInput("int64", strArg(args[0]), types.Uint32)
		},
		"vUint64": func(m *Machine, fr *frame, args []value) value {
			return m.newInput("int64", strArg(args[0]), types.Uint64)
		},
		"vBool": func(m *Machine, fr *frame, args []value) value {
			return m.newInput("bool", strArg(args[0]), types.Bool)
		},
		"vIntRange": func(m *Machine, fr *frame, args []value) value {
			v := m.newInput("int64", strArg(args[0]), types.Int).(*Sym)
			lo, hi := asInt64(args[1]), asInt64(args[2])
			f := m.F
			c := f.And(f.Cmp(OpSle, f.Const(uint64(lo), 64), v.T), f.Cmp(OpSle, v.T, f.Const(uint64(hi), 64)))
			m.assume(wrap(c, types.Bool))
			return v
		},
		"vChoice": func(m *Machine, fr *frame, args []value) value {
			n := int(m.intArg(args[1]))
			c := m.choose(n)
			m.inputs = append(m.inputs, Input{Kind: "choice", Tag: strArg(args[0]), Val: int64(c)})
			return c
		},
		"vAssume": func(m *Machine, fr *frame, args []value) value {
			m.assume(args[0])
			return nil
		},
		// vOrdered(keys): assume keys[0] < keys[1] < ... (strict, lexicographic). Only the adjacent
		// facts are asserted to the solver; every pairwise consequence (transitivity) is recorded as
		// known for this path so that comparisons between pool keys never reach the solver.
		"vOrdered": func(m *Machine, fr *frame, args []value) value {
			ks, _ := args[0].([]value)
			keys := make([][]value, len(ks))
			for i, k := range ks {
				keys[i], _ = k.([]value)
			}
			for i := 0; i+1 < len(keys); i++ {
				lt, _ := m.bytesLex(keys[i], keys[i+1])
				m.assume(wrap(lt, types.Bool))
			}
			for i := 0; i < len(keys); i++ {
				for j := i + 1; j < len(keys); j++ {
					lt, eq := m.bytesLex(keys[i], keys[j])
					gt, _ := m.bytesLex(keys[j], keys[i])
					for _, fact := range []struct {
						t *Term
						v bool
					}{{lt, true}, {eq, false}, {gt, false}, {m.bytesEqTerm(keys[i], keys[j]), false}} {
						if fact.t.Op != OpConst {
							m.learn(fact.t, fact.v)
						}
					}
				}
			}
			return nil
		},
		"vAssert": func(m *Machine, fr *frame, args []value) value {
			label := strArg(args[1])
			if m.region != "" {
				label = m.region
			}
			m.assertV(args[0], label)
			return nil
		},
		// vRegion(label): until cleared with "", every assertion is reported under this label
		// (the region of a recorded finding, see known_findings.json).
		"vRegion": func(m *Machine, fr *frame, args []value) value {
			m.region = strArg(args[0])
			return nil
		},
		"vFail": func(m *Machine, fr *frame, args []value) value {
			m.assertV(false, strArg(args[0]))
			return nil
		},
		"vCover": func(m *Machine, fr *frame, args []value) value {
			m.res.Covers[strArg(args[0])] = true
			return nil
		},
		"vStop": func(m *Machine, fr *frame, args []value) value {
			m.abort("stop")
			return nil
		},
		"vNative": func(m *Machine, fr *frame, args []value) value { return false },
		"vTempDir": func(m *Machine, fr *frame, args []value) value { return "" },
		"vKnown": func(m *Machine, fr *frame, args []value) value {
			return m.cfg.Known[strArg(args[0])]
		},
		"vTier": func(m *Machine, fr *frame, args []value) value { return m.cfg.Tier },
		"vAnd": func(m *Machine, fr *frame, args []value) value {
			return m.andV(args[0], args[1])
		},
		"vOr": func(m *Machine, fr *frame, args []value) value {
			return m.orV(args[0], args[1])
		},
		"vNot": func(m *Machine, fr *frame, args []value) value {
			return m.notV(args[0])
		},
		"vImplies": func(m *Machine, fr *frame, args []value) value {
			return m.orV(m.notV(args[0]), args[1])
		},
		"vEqBytes": func(m *Machine, fr *frame, args []value) value {
			a, _ := args[0].([]value)
			b, _ := args[1].([]value)
			return wrap(m.bytesEqTerm(a, b), types.Bool)
		},
		"vLessBytes": func(m *Machine, fr *frame, args []value) value {
			a, _ := args[0].([]value)
			b, _ := args[1].([]value)
			lt, _ := m.bytesLex(a, b)
			return wrap(lt, types.Bool)
		},
		"vIteInt": func(m *Machine, fr *frame, args []value) value {
			c := boolTerm(m, args[0])
			return wrap(m.F.Ite(c, m.termOf(args[1]), m.termOf(args[2])), types.Int)
		},
		"vConcrete": func(m *Machine, fr *frame, args []value) value {
			return int(m.concretize(args[0]))
		},
		"vConcreteBool": func(m *Machine, fr *frame, args []value) value {
			return m.truth(args[0])
		},
		"vIsSym": func(m *Machine, fr *frame, args []value) value {
			return isSym(args[0])
		},
		"vObserve": func(m *Machine, fr *frame, args []value) value {
			va, _ := args[1].([]value)
			m.observe(strArg(args[0]), va)
			return nil
		},
		"vSteps": func(m *Machine, fr *frame, args []value) value { return m.steps },
	}
}

// observe records values for translator validation: every observation made on a
// complete path is evaluated under the path's final model and compared with what
// the native replay of that model observes.
func (m *Machine) observe(label string, vals []value) {
	ob := pendingObs{label: label}
	for _, v := range vals {
		if it, ok := v.(iface); ok {
			v = it.v
		}
		ob.vals = append(ob.vals, v)
	}
	m.pendingObs = append(m.pendingObs, ob)
}

type pendingObs struct {
	label string
	vals  []value
}

// renderObs evaluates pending observations under model (term -> bits).
func (m *Machine) obsTerms() []*Term {
	var ts []*Term
	seen := map[*Term]bool{}
	var walk func(v value)
	walk = func(v value) {
		switch x := v.(type) {
		case *Sym:
			if !seen[x.T] {
				seen[x.T] = true
				ts = append(ts, x.T)
			}
		case []value:
			for _, e := range x {
				walk(e)
			}
		case *SymStr:
			for _, e := range x.b {
				walk(e)
			}
		}
	}
	for _, ob := range m.pendingObs {
		for _, v := range ob.vals {
			walk(v)
		}
	}
	return ts
}

func (m *Machine) renderObs(model map[*Term]uint64) []Observation {
	var out []Observation
	scalar := func(v value) (string, bool) {
		switch x := v.(type) {
		case *Sym:
			bits := model[x.T]
			if x.T.W == 0 {
				return fmt.Sprint(bits != 0), true
			}
			if kindSigned(x.K) {
				return fmt.Sprint(sext64(bits, x.T.W)), true
			}
			return fmt.Sprint(bits), true
		case bool:
			return fmt.Sprint(x), true
		case string:
			return fmt.Sprintf("%x", x), true
		}
		if b, ok := bitsOf(v); ok {
			if kindSigned(kindOf(v)) {
				return fmt.Sprint(asInt64(v)), true
			}
			return fmt.Sprint(b), true
		}
		return "", false
	}
	byteOf := func(v value) (byte, bool) {
		switch x := v.(type) {
		case uint8:
			return x, true
		case *Sym:
			if x.T.Op == OpHashByte {
				return 0, false
			}
			return byte(model[x.T]), true
		}
		return 0, false
	}
	for _, ob := range m.pendingObs {
		o := Observation{Label: ob.label}
		for _, v := range ob.vals {
			switch x := v.(type) {
			case []value:
				if x == nil {
					o.Vals = append(o.Vals, "nil")
					continue
				}
				s := ""
				ok := true
				for _, e := range x {
					b, isB := byteOf(e)
					if !isB {
						ok = false
						break
					}
					s += fmt.Sprintf("%02x", b)
				}
				if !ok {
					s = "<opaque>"
				}
				o.Vals = append(o.Vals, "x"+s)
			case *SymStr:
				s := ""
				for _, e := range x.b {
					b, _ := byteOf(e)
					s += fmt.Sprintf("%02x", b)
				}
				o.Vals = append(o.Vals, s)
			default:
				if s, ok := scalar(v); ok {
					o.Vals = append(o.Vals, s)
				} else {
					o.Vals = append(o.Vals, "<opaque>")
				}
			}
		}
		out = append(out, o)
	}
	return out
}
