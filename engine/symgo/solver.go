package symgo

// One live SMT solver process (z3 -in | z3-new -in | cvc5 --incremental), SMT-LIB2 text.

import (
	"bufio"
	"fmt"
	"io"
	"os"
	"os/exec"
	"strings"
	"time"
)

type Result int

const (
	Unsat Result = iota
	Sat
	Unknown
)

func (r Result) String() string { return [...]string{"unsat", "sat", "unknown"}[r] }

type SolverStats struct {
	Queries, Sat, Unsat, Unknown, Errors int
	Time                                 time.Duration
}

type Solver struct {
	Kind    string
	cmd     *exec.Cmd
	in      *bufio.Writer
	out     *bufio.Reader
	epoch   int
	Stats   SolverStats
	Log     io.Writer // optional query log
	Timeout int       // ms per query
	LastErr string
	depth   int
	// lazy mode: nothing is sent until a check is needed
	pending   []*Term
	needReset bool
}

func NewSolver(kind string, timeoutMs int) (*Solver, error) {
	var cmd *exec.Cmd
	switch kind {
	case "", "z3":
		kind = "z3"
		cmd = exec.Command("z3", "-in")
	case "z3-new":
		cmd = exec.Command("z3-new", "-in")
	case "cvc5":
		cmd = exec.Command("cvc5", "--incremental", "--lang=smt2", fmt.Sprintf("--tlimit-per=%d", timeoutMs))
	default:
		return nil, fmt.Errorf("unknown solver %q", kind)
	}
	stdin, err := cmd.StdinPipe()
	if err != nil {
		return nil, err
	}
	stdout, err := cmd.StdoutPipe()
	if err != nil {
		return nil, err
	}
	cmd.Stderr = os.Stderr
	if err := cmd.Start(); err != nil {
		return nil, err
	}
	s := &Solver{Kind: kind, cmd: cmd, in: bufio.NewWriterSize(stdin, 1<<16), out: bufio.NewReaderSize(stdout, 1<<16), Timeout: timeoutMs}
	s.epoch = 1
	s.preamble()
	return s, nil
}

func (s *Solver) preamble() {
	s.send("(set-option :produce-models true)")
	if s.Kind != "cvc5" {
		s.send(fmt.Sprintf("(set-option :timeout %d)", s.Timeout))
	} else {
		s.send("(set-logic ALL)")
	}
}

func (s *Solver) Close() {
	if s.cmd != nil {
		s.send("(exit)")
		s.in.Flush()
		done := make(chan struct{})
		go func() { s.cmd.Wait(); close(done) }()
		select {
		case <-done:
		case <-time.After(2 * time.Second):
			s.cmd.Process.Kill()
		}
		s.cmd = nil
	}
}

func (s *Solver) send(line string) {
	if s.Log != nil {
		fmt.Fprintln(s.Log, line)
	}
	s.in.WriteString(line)
	s.in.WriteByte('\n')
}

// Reset drops every assertion and definition.
func (s *Solver) Reset() {
	s.pending = s.pending[:0]
	s.needReset = true
	s.epoch++
	s.depth = 0
}

// sync sends a pending reset and the buffered assertions.
func (s *Solver) sync() {
	if s.needReset {
		s.send("(reset)")
		s.preamble()
		s.needReset = false
	}
	for _, t := range s.pending {
		s.define(t)
		s.send(fmt.Sprintf("(assert %s)", t.smtName()))
	}
	s.pending = s.pending[:0]
}

// define makes sure t and all its subterms are declared/defined in the current epoch.
func (s *Solver) define(t *Term) {
	if t.epoch == s.epoch {
		return
	}
	switch t.Op {
	case OpConst:
		return
	case OpVar:
		s.send(fmt.Sprintf("(declare-const %s %s)", t.Name, sortName(t.W)))
		t.epoch = s.epoch
		return
	case OpHashByte:
		s.send(fmt.Sprintf("(declare-const %s (_ BitVec 8))", t.smtName()))
		t.epoch = s.epoch
		return
	}
	// iterative post-order to avoid deep recursion
	type fr struct {
		t *Term
		i int
	}
	st := []fr{{t, 0}}
	for len(st) > 0 {
		top := &st[len(st)-1]
		if top.t.epoch == s.epoch || top.t.Op == OpConst {
			st = st[:len(st)-1]
			continue
		}
		if top.t.Op == OpVar || top.t.Op == OpHashByte {
			s.define(top.t)
			st = st[:len(st)-1]
			continue
		}
		if top.i < len(top.t.Args) {
			a := top.t.Args[top.i]
			top.i++
			if a.epoch != s.epoch && a.Op != OpConst {
				st = append(st, fr{a, 0})
			}
			continue
		}
		s.send(fmt.Sprintf("(define-fun %s () %s %s)", top.t.smtName(), sortName(top.t.W), top.t.smtBody()))
		top.t.epoch = s.epoch
		st = st[:len(st)-1]
	}
}

// Assert adds t permanently (until Reset) to the assertion stack. Must be called at depth 0.
func (s *Solver) Assert(t *Term) {
	if s.depth != 0 {
		panic("Assert inside push")
	}
	s.pending = append(s.pending, t)
}

func (s *Solver) readLine() (string, error) {
	line, err := s.out.ReadString('\n')
	return strings.TrimSpace(line), err
}

func (s *Solver) checkSat() Result {
	s.send("(check-sat)")
	s.in.Flush()
	t0 := time.Now()
	defer func() { s.Stats.Time += time.Since(t0) }()
	s.Stats.Queries++
	for {
		line, err := s.readLine()
		if err != nil {
			s.Stats.Errors++
			s.LastErr = "solver died: " + err.Error()
			s.Stats.Unknown++
			return Unknown
		}
		switch {
		case line == "sat":
			s.Stats.Sat++
			return Sat
		case line == "unsat":
			s.Stats.Unsat++
			return Unsat
		case line == "unknown" || line == "timeout":
			s.Stats.Unknown++
			return Unknown
		case strings.HasPrefix(line, "(error"):
			s.Stats.Errors++
			s.LastErr = line
		case line == "":
		default:
			// stray output (e.g. warnings): keep but remember
			s.LastErr = "unexpected solver output: " + line
		}
	}
}

// Check decides satisfiability of (assertions ∧ extra). extra may be nil.
func (s *Solver) Check(extra *Term) Result {
	s.sync()
	if extra != nil {
		s.define(extra)
		s.send("(push 1)")
		s.send(fmt.Sprintf("(assert %s)", extra.smtName()))
		r := s.checkSat()
		s.send("(pop 1)")
		return r
	}
	return s.checkSat()
}

// CheckModel is Check followed, when sat, by reading the values of vars.
func (s *Solver) CheckModel(extra *Term, vars []*Term) (Result, map[*Term]uint64) {
	s.sync()
	for _, v := range vars {
		s.define(v)
	}
	if extra != nil {
		s.define(extra)
	}
	s.send("(push 1)")
	if extra != nil {
		s.send(fmt.Sprintf("(assert %s)", extra.smtName()))
	}
	r := s.checkSat()
	var m map[*Term]uint64
	if r == Sat {
		m = s.values(vars)
	}
	s.send("(pop 1)")
	return r, m
}

// Values reads model values right after a sat answer (no push/pop management).
func (s *Solver) values(vars []*Term) map[*Term]uint64 {
	m := map[*Term]uint64{}
	const chunk = 64
	for i := 0; i < len(vars); i += chunk {
		j := i + chunk
		if j > len(vars) {
			j = len(vars)
		}
		var sb strings.Builder
		sb.WriteString("(get-value (")
		for _, v := range vars[i:j] {
			sb.WriteString(v.smtName())
			sb.WriteByte(' ')
		}
		sb.WriteString("))")
		s.send(sb.String())
		s.in.Flush()
		txt := s.readSexp()
		vals := parseValues(txt)
		if len(vals) != j-i {
			s.Stats.Errors++
			s.LastErr = fmt.Sprintf("get-value: expected %d values, got %d in %q", j-i, len(vals), txt)
			return nil
		}
		for k, v := range vars[i:j] {
			m[v] = vals[k]
		}
	}
	return m
}

func (s *Solver) readSexp() string {
	var sb strings.Builder
	depth := 0
	started := false
	for {
		line, err := s.out.ReadString('\n')
		sb.WriteString(line)
		for _, c := range line {
			if c == '(' {
				depth++
				started = true
			} else if c == ')' {
				depth--
			}
		}
		if err != nil || (started && depth <= 0) {
			break
		}
	}
	return sb.String()
}

// parseValues extracts the value literals of a get-value answer: ((name val) (name val) ...).
func parseValues(txt string) []uint64 {
	var out []uint64
	// tokenise
	toks := tokenize(txt)
	// pattern: ( ( name VALUE ) ... ) where VALUE is #x.., #b.., true, false or (_ bvN W)
	depth := 0
	for i := 0; i < len(toks); i++ {
		switch toks[i] {
		case "(":
			depth++
			if depth == 2 {
				// toks[i+1] is the name (may itself be parenthesised only for non-const terms; we use names only)
				j := i + 2
				if j < len(toks) {
					v := toks[j]
					switch {
					case strings.HasPrefix(v, "#x"):
						var x uint64
						fmt.Sscanf(v[2:], "%x", &x)
						out = append(out, x)
					case strings.HasPrefix(v, "#b"):
						var x uint64
						for _, c := range v[2:] {
							x = x<<1 | uint64(c-'0')
						}
						out = append(out, x)
					case v == "true":
						out = append(out, 1)
					case v == "false":
						out = append(out, 0)
					case v == "(" && j+2 < len(toks) && toks[j+1] == "_" && strings.HasPrefix(toks[j+2], "bv"):
						var x uint64
						fmt.Sscanf(toks[j+2][2:], "%d", &x)
						out = append(out, x)
					}
				}
			}
		case ")":
			depth--
		}
	}
	return out
}

func tokenize(s string) []string {
	var toks []string
	cur := strings.Builder{}
	flush := func() {
		if cur.Len() > 0 {
			toks = append(toks, cur.String())
			cur.Reset()
		}
	}
	for _, c := range s {
		switch c {
		case '(', ')':
			flush()
			toks = append(toks, string(c))
		case ' ', '\n', '\t', '\r':
			flush()
		default:
			cur.WriteRune(c)
		}
	}
	flush()
	return toks
}

// SolverSelfTest checks a few known verdicts and a model on the given back end.
func SolverSelfTest(kind string) error {
	s, err := NewSolver(kind, 10000)
	if err != nil {
		return err
	}
	defer s.Close()
	f := NewFactory()
	x := f.Var("x", 8)
	y := f.Var("y", 8)
	s.Assert(f.Cmp(OpUlt, x, y))
	if r := s.Check(f.Eq(x, y)); r != Unsat {
		return fmt.Errorf("x<y ∧ x=y: want unsat, got %v (%s)", r, s.LastErr)
	}
	r, m := s.CheckModel(f.Eq(f.Bin(OpAdd, x, f.Const(1, 8)), y), []*Term{x, y})
	if r != Sat || m == nil || (m[x]+1)&0xff != m[y] {
		return fmt.Errorf("x+1=y: want sat with model, got %v %v (%s)", r, m, s.LastErr)
	}
	// wrap-around: x = 255 ∧ x+1 = 0
	s.Reset()
	f = NewFactory()
	x = f.Var("x", 8)
	s.Assert(f.Eq(x, f.Const(255, 8)))
	if r := s.Check(f.Not(f.Eq(f.Bin(OpAdd, x, f.Const(1, 8)), f.Const(0, 8)))); r != Unsat {
		return fmt.Errorf("wrap-around: want unsat, got %v", r)
	}
	if s.Stats.Errors > 0 {
		return fmt.Errorf("solver reported errors: %s", s.LastErr)
	}
	return nil
}
