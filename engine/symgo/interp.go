package symgo

// SSA interpreter loop. Derived from golang.org/x/tools/go/ssa/interp/interp.go
// (BSD licence, Copyright 2013 The Go Authors).

import (
	"fmt"
	"go/token"
	"go/types"
	"os"
	"runtime"
	"runtime/debug"
	"slices"
	"sort"
	"strings"

	"golang.org/x/tools/go/ssa"
)

// allocPanic ends a path on which the size of an allocation is controlled by symbolic input
// beyond 2^20 elements: reported as violation kind "alloc".
type allocPanic struct{ msg string }

// notHandled is returned by an intrinsic that declines (the function body is interpreted instead).
type notHandled struct{}

type continuation int

const (
	kNext continuation = iota
	kReturn
	kJump
)

type deferred struct {
	fn    value
	args  []value
	instr *ssa.Defer
	tail  *deferred
}

type fnInfo struct {
	idx   map[ssa.Value]int
	n     int
	intr  intrinsic
	isAPI bool
	free  [][]value // recycled register files (never cleared: SSA values are defined before use)
}

type frame struct {
	m                *Machine
	caller           *frame
	fn               *ssa.Function
	info             *fnInfo
	block, prevBlock *ssa.BasicBlock
	env              []value
	locals           []value
	defers           *deferred
	result           value
	panicking        bool
	panic            interface{}
	phitemps         []value
}

func (m *Machine) info(fn *ssa.Function) *fnInfo {
	if fi, ok := m.fninfo[fn]; ok {
		return fi
	}
	fi := &fnInfo{idx: map[ssa.Value]int{}}
	add := func(v ssa.Value) {
		if _, ok := fi.idx[v]; !ok {
			fi.idx[v] = fi.n
			fi.n++
		}
	}
	for _, p := range fn.Params {
		add(p)
	}
	for _, fv := range fn.FreeVars {
		add(fv)
	}
	for _, l := range fn.Locals {
		add(l)
	}
	for _, b := range fn.Blocks {
		for _, in := range b.Instrs {
			if v, ok := in.(ssa.Value); ok {
				add(v)
			}
		}
	}
	fi.intr = m.lookupIntrinsic(fn)
	m.fninfo[fn] = fi
	return fi
}

func (fr *frame) get(key ssa.Value) value {
	switch key := key.(type) {
	case nil:
		return nil
	case *ssa.Function, *ssa.Builtin:
		return key
	case *ssa.Const:
		return constValue(key)
	case *ssa.Global:
		return fr.m.global(key)
	}
	if i, ok := fr.info.idx[key]; ok {
		return fr.env[i]
	}
	panic(fmt.Sprintf("symgo: internal: get: no value for %T: %v", key, key.Name()))
}

func (fr *frame) set(key ssa.Value, v value) {
	fr.env[fr.info.idx[key]] = v
}

func (fr *frame) runDefer(d *deferred) {
	var ok bool
	defer func() {
		if !ok {
			r := recover()
			if pa, isAbort := r.(pathAbort); isAbort {
				panic(pa)
			}
			if ap, isAlloc := r.(allocPanic); isAlloc {
				panic(ap)
			}
			fr.panicking = true
			fr.panic = r
		}
	}()
	call(fr.m, fr, d.instr.Pos(), d.fn, d.args)
	ok = true
}

func (fr *frame) runDefers() {
	for d := fr.defers; d != nil; d = d.tail {
		fr.runDefer(d)
	}
	fr.defers = nil
	if fr.panicking {
		panic(fr.panic)
	}
}

func (m *Machine) boundsCheck(idx value, n int) int64 {
	if s, ok := idx.(*Sym); ok {
		// out-of-range is a path of its own
		var inRange *Term
		nn := m.F.Const(uint64(n), s.T.W)
		if kindSigned(s.K) {
			inRange = m.F.And(m.F.Cmp(OpSle, m.F.Const(0, s.T.W), s.T), m.F.Cmp(OpSlt, s.T, nn))
		} else {
			inRange = m.F.Cmp(OpUlt, s.T, nn)
		}
		if !m.decide(inRange) {
			panic(fmt.Sprintf("runtime error: index out of range [symbolic] with length %d", n))
		}
		return m.concretize(idx)
	}
	i := asInt64(idx)
	if i < 0 || i >= int64(n) {
		panic(fmt.Sprintf("runtime error: index out of range [%d] with length %d", i, n))
	}
	return i
}

func visitInstr(fr *frame, instr ssa.Instruction) continuation {
	m := fr.m
	switch instr := instr.(type) {
	case *ssa.DebugRef:
		// no-op

	case *ssa.UnOp:
		fr.set(instr, m.unop(instr, fr.get(instr.X)))

	case *ssa.BinOp:
		fr.set(instr, m.binop(instr.Op, instr.X.Type(), fr.get(instr.X), fr.get(instr.Y)))

	case *ssa.Call:
		fn, args := prepareCall(fr, &instr.Call)
		fr.set(instr, call(m, fr, instr.Pos(), fn, args))

	case *ssa.ChangeInterface:
		fr.set(instr, fr.get(instr.X))

	case *ssa.ChangeType:
		fr.set(instr, fr.get(instr.X))

	case *ssa.Convert:
		fr.set(instr, m.conv(instr.Type(), instr.X.Type(), fr.get(instr.X)))

	case *ssa.SliceToArrayPointer:
		fr.set(instr, sliceToArrayPointer(instr.Type(), instr.X.Type(), fr.get(instr.X)))

	case *ssa.MakeInterface:
		fr.set(instr, iface{t: instr.X.Type(), v: fr.get(instr.X)})

	case *ssa.Extract:
		fr.set(instr, fr.get(instr.Tuple).(tuple)[instr.Index])

	case *ssa.Slice:
		fr.set(instr, m.slice(fr.get(instr.X), fr.get(instr.Low), fr.get(instr.High), fr.get(instr.Max)))

	case *ssa.Return:
		switch len(instr.Results) {
		case 0:
		case 1:
			fr.result = fr.get(instr.Results[0])
		default:
			res := make([]value, 0, len(instr.Results))
			for _, r := range instr.Results {
				res = append(res, fr.get(r))
			}
			fr.result = tuple(res)
		}
		fr.block = nil
		return kReturn

	case *ssa.RunDefers:
		fr.runDefers()

	case *ssa.Panic:
		panic(targetPanic{fr.get(instr.X)})

	case *ssa.Send:
		m.chanSend(fr.get(instr.Chan).(*chanObj), fr.get(instr.X))

	case *ssa.Store:
		addr := fr.get(instr.Addr).(*value)
		if addr == nil {
			panic("runtime error: invalid memory address or nil pointer dereference")
		}
		store(deref(instr.Addr.Type()), addr, fr.get(instr.Val))

	case *ssa.If:
		succ := 1
		if m.truth(fr.get(instr.Cond)) {
			succ = 0
		}
		fr.prevBlock, fr.block = fr.block, fr.block.Succs[succ]
		return kJump

	case *ssa.Jump:
		fr.prevBlock, fr.block = fr.block, fr.block.Succs[0]
		return kJump

	case *ssa.Defer:
		fn, args := prepareCall(fr, &instr.Call)
		defers := &fr.defers
		if into := fr.get(instr.DeferStack); into != nil {
			defers = into.(**deferred)
		}
		*defers = &deferred{fn: fn, args: args, instr: instr, tail: *defers}

	case *ssa.Go:
		fn, args := prepareCall(fr, &instr.Call)
		pos := instr.Pos()
		m.sched.spawn(func() { call(m, nil, pos, fn, args) })

	case *ssa.MakeChan:
		fr.set(instr, &chanObj{cap: int(m.intArg(fr.get(instr.Size)))})

	case *ssa.Alloc:
		var addr *value
		if instr.Heap {
			addr = new(value)
			fr.set(instr, addr)
		} else {
			addr = fr.get(instr).(*value)
		}
		*addr = zero(deref(instr.Type()))

	case *ssa.MakeSlice:
		capV, lenV := fr.get(instr.Cap), fr.get(instr.Len)
		for _, sv := range []value{capV, lenV} {
			if sy, ok := sv.(*Sym); ok {
				// a symbolic size: negative or huge is a path of its own
				tt := sy.T
				if tt.W != 64 {
					tt = m.F.Resize(tt, 64, kindSigned(sy.K))
				}
				okT := m.F.And(m.F.Cmp(OpSle, m.F.Const(0, 64), tt), m.F.Cmp(OpSle, tt, m.F.Const(1<<20, 64)))
				if !m.decide(okT) {
					// prefer a witness the native replay can observe without exhausting memory
					big := m.F.And(m.F.Cmp(OpSlt, m.F.Const(1<<20, 64), tt), m.F.Cmp(OpSle, tt, m.F.Const(1<<28, 64)))
					if m.check(big) == Sat {
						m.S.Assert(big)
					}
					panic(allocPanic{"allocation size controlled by input: more than 2^20 elements (or negative)"})
				}
			}
		}
		c := m.intArg(capV)
		l := m.intArg(lenV)
		if l < 0 || c < l || c > 1<<26 {
			if c > 1<<26 && l >= 0 && c >= l {
				panic(fmt.Sprintf("symgo: allocation of %d elements exceeds the allocation budget", c))
			}
			panic("runtime error: makeslice: len out of range")
		}
		sl := make([]value, c)
		tElt := instr.Type().Underlying().(*types.Slice).Elem()
		for i := range sl {
			sl[i] = zero(tElt)
		}
		m.allocated += int(c)
		fr.set(instr, sl[:l])

	case *ssa.MakeMap:
		fr.set(instr, newAmap(instr.Type().Underlying().(*types.Map).Key()))

	case *ssa.Range:
		fr.set(instr, rangeIter(fr.get(instr.X), instr.X.Type()))

	case *ssa.Next:
		fr.set(instr, fr.get(instr.Iter).(iter).next())

	case *ssa.FieldAddr:
		p := fr.get(instr.X).(*value)
		if p == nil {
			panic("runtime error: invalid memory address or nil pointer dereference")
		}
		fr.set(instr, &(*p).(structure)[instr.Field])

	case *ssa.Field:
		fr.set(instr, fr.get(instr.X).(structure)[instr.Field])

	case *ssa.IndexAddr:
		x := fr.get(instr.X)
		idx := fr.get(instr.Index)
		switch x := x.(type) {
		case []value:
			i := m.boundsCheck(idx, len(x))
			m.ring[m.ringPos&15] = backing{x[i:]}
			m.ringPos++
			fr.set(instr, &x[i])
		case *value: // *array
			if x == nil {
				panic("runtime error: invalid memory address or nil pointer dereference")
			}
			a := (*x).(array)
			i := m.boundsCheck(idx, len(a))
			fr.set(instr, &a[i])
		default:
			panic(fmt.Sprintf("symgo: internal: unexpected x type in IndexAddr: %T", x))
		}

	case *ssa.Index:
		x := fr.get(instr.X)
		idx := fr.get(instr.Index)
		switch x := x.(type) {
		case array:
			fr.set(instr, x[m.boundsCheck(idx, len(x))])
		case string:
			fr.set(instr, x[m.boundsCheck(idx, len(x))])
		case *SymStr:
			fr.set(instr, x.b[m.boundsCheck(idx, len(x.b))])
		default:
			panic(fmt.Sprintf("symgo: internal: unexpected x type in Index: %T", x))
		}

	case *ssa.Lookup:
		fr.set(instr, m.lookup(instr, fr.get(instr.X), fr.get(instr.Index)))

	case *ssa.MapUpdate:
		mp := fr.get(instr.Map).(*amap)
		if mp == nil {
			panic("assignment to entry in nil map")
		}
		m.mapSet(mp, fr.get(instr.Key), copyVal(fr.get(instr.Value)))

	case *ssa.TypeAssert:
		fr.set(instr, m.typeAssert(instr, fr.get(instr.X).(iface)))

	case *ssa.MakeClosure:
		bindings := make([]value, 0, len(instr.Bindings))
		for _, binding := range instr.Bindings {
			bindings = append(bindings, fr.get(binding))
		}
		fr.set(instr, &closure{instr.Fn.(*ssa.Function), bindings})

	case *ssa.Phi:
		panic("unreachable: phi")

	case *ssa.Select:
		fr.set(instr, m.selectOp(fr, instr))

	default:
		panic(fmt.Sprintf("symgo: unexpected instruction: %T", instr))
	}
	return kNext
}

func prepareCall(fr *frame, call *ssa.CallCommon) (fn value, args []value) {
	v := fr.get(call.Value)
	if call.Method == nil {
		fn = v
	} else {
		recv := v.(iface)
		if recv.t == nil {
			panic("runtime error: invalid memory address or nil pointer dereference (method call on nil interface)")
		}
		f := fr.m.prog.LookupMethod(recv.t, call.Method.Pkg(), call.Method.Name())
		if f == nil {
			panic(fmt.Sprintf("symgo: internal: method set for dynamic type %v does not contain %s", recv.t, call.Method))
		}
		fn = f
		args = append(args, recv.v)
	}
	for _, arg := range call.Args {
		args = append(args, fr.get(arg))
	}
	return
}

func call(m *Machine, caller *frame, callpos token.Pos, fn value, args []value) value {
	switch fn := fn.(type) {
	case *ssa.Function:
		if fn == nil {
			panic("runtime error: invalid memory address or nil pointer dereference (call of nil func)")
		}
		return callSSA(m, caller, callpos, fn, args, nil)
	case *closure:
		return callSSA(m, caller, callpos, fn.Fn, args, fn.Env)
	case *ssa.Builtin:
		return m.callBuiltin(caller, callpos, fn, args)
	case *nativeFn:
		return fn.f(m, args)
	}
	panic(fmt.Sprintf("symgo: internal: cannot call %T", fn))
}

func callSSA(m *Machine, caller *frame, callpos token.Pos, fn *ssa.Function, args []value, env []value) value {
	info := m.info(fn)
	fr := &frame{m: m, caller: caller, fn: fn, info: info}
	if info.intr != nil {
		if r := info.intr(m, fr, args); r != (notHandled{}) {
			return r
		}
	}
	if fn.Blocks == nil {
		panic("symgo: no code and no intrinsic for function: " + fn.String())
	}
	if fn.TypeParams().Len() > 0 && len(fn.TypeArgs()) == 0 {
		panic("symgo: uninstantiated generic function " + fn.String())
	}
	if m.funcsSeen != nil {
		m.funcsSeen[fn] = true
	}
	m.depth++
	if m.depth > 400 {
		m.abort("budget:call depth")
	}
	defer func() { m.depth-- }()

	if k := len(info.free); k > 0 {
		fr.env = info.free[k-1]
		info.free = info.free[:k-1]
	} else {
		fr.env = make([]value, info.n)
	}
	defer func() {
		if len(info.free) < 8 {
			info.free = append(info.free, fr.env)
		}
		fr.env = nil
	}()
	fr.block = fn.Blocks[0]
	fr.locals = make([]value, len(fn.Locals))
	for i, l := range fn.Locals {
		fr.locals[i] = zero(deref(l.Type()))
		fr.env[info.idx[l]] = &fr.locals[i]
	}
	for i, p := range fn.Params {
		fr.env[info.idx[p]] = args[i]
	}
	for i, fv := range fn.FreeVars {
		fr.env[info.idx[fv]] = env[i]
	}
	for fr.block != nil {
		runFrame(fr)
	}
	return fr.result
}

func runFrame(fr *frame) {
	defer func() {
		if fr.block == nil {
			return // normal return
		}
		r := recover()
		if pa, ok := r.(pathAbort); ok {
			panic(pa)
		}
		if ap, ok := r.(allocPanic); ok {
			panic(ap)
		}
		if s, ok := r.(string); ok && strings.HasPrefix(s, "symgo:") {
			if os.Getenv("VERIF_DEBUG") != "" && !strings.Contains(s, "target stack") {
				s += "\ntarget stack: " + targetStack(fr) + "\n" + string(debug.Stack())
			}
			panic(s) // interpreter limitation: not recoverable by the target
		}
		if re, ok := r.(runtime.Error); ok && strings.Contains(re.Error(), "symgo.") {
			// a failed type assertion inside the executor itself: executor bug / unsupported shape
			msg := "symgo: internal: " + re.Error() + " in " + fr.fn.String()
			if os.Getenv("VERIF_DEBUG") != "" {
				msg += "\ntarget stack: " + targetStack(fr) + "\n" + string(debug.Stack())
			}
			panic(msg)
		}
		fr.panicking = true
		fr.panic = r
		fr.runDefers()
		fr.block = fr.fn.Recover
	}()

	m := fr.m
	for {
		m.curFrame = fr
		nonPhis := executePhis(fr)
		for _, instr := range nonPhis {
			m.steps++
			if profileOn {
				profile[fr.fn.String()]++
			}
			if m.steps > m.cfg.MaxSteps {
				m.abort("budget:steps")
			}
			if visitInstr(fr, instr) == kReturn {
				return
			}
		}
	}
}

func executePhis(fr *frame) []ssa.Instruction {
	firstNonPhi := -1
	for i, instr := range fr.block.Instrs {
		if _, ok := instr.(*ssa.Phi); !ok {
			firstNonPhi = i
			break
		}
	}
	nonPhis := fr.block.Instrs[firstNonPhi:]
	if firstNonPhi > 0 {
		phis := fr.block.Instrs[:firstNonPhi]
		predIndex := slices.Index(fr.block.Preds, fr.prevBlock)
		fr.phitemps = fr.phitemps[:0]
		for _, phi := range phis {
			phi := phi.(*ssa.Phi)
			fr.phitemps = append(fr.phitemps, fr.get(phi.Edges[predIndex]))
		}
		for i, phi := range phis {
			fr.set(phi.(*ssa.Phi), fr.phitemps[i])
		}
	}
	return nonPhis
}

func doRecover(caller *frame) value {
	if caller != nil && !caller.panicking &&
		caller.caller != nil && caller.caller.panicking {
		caller.caller.panicking = false
		p := caller.caller.panic
		caller.caller.panic = nil
		m := caller.m
		switch p := p.(type) {
		case targetPanic:
			return p.v
		case runtime.Error:
			return iface{m.rtErrStr, p.Error()}
		case string:
			return iface{m.rtErrStr, p}
		case fatalError:
			// fatal errors cannot be recovered in Go
			panic(p)
		default:
			panic(fmt.Sprintf("symgo: internal: unexpected panic type %T in target call to recover()", p))
		}
	}
	return iface{}
}

// runInit runs the package initialiser of p (and, recursively, of the packages it
// imports as far as they are on the allow list; see intrinsics.go).
func (m *Machine) runInit(p *ssa.Package) {
	if m.initDone[p] {
		return
	}
	m.initDone[p] = true
	if f := p.Func("init"); f != nil {
		call(m, nil, token.NoPos, f, nil)
	}
}

func targetStack(fr *frame) string {
	var sb strings.Builder
	for f := fr; f != nil; f = f.caller {
		sb.WriteString(f.fn.String())
		sb.WriteString(" <- ")
	}
	return sb.String()
}

var profileOn = os.Getenv("VERIF_PROFILE") != ""
var profile = map[string]int{}

// DumpProfile prints the per-function instruction counts (single worker runs only).
func DumpProfile() {
	if !profileOn {
		return
	}
	type kv struct {
		k string
		v int
	}
	var all []kv
	for k, v := range profile {
		all = append(all, kv{k, v})
	}
	sort.Slice(all, func(i, j int) bool { return all[i].v > all[j].v })
	for i, e := range all {
		if i >= 40 {
			break
		}
		fmt.Fprintf(os.Stderr, "%10d %s\n", e.v, e.k)
	}
}

func (m *Machine) global(g *ssa.Global) *value {
	if r, ok := m.globals[g]; ok {
		return r
	}
	cell := zero(deref(g.Type()))
	m.globals[g] = &cell
	return &cell
}
