package symgo

// SHA-256 (and any other hash used through the intrinsics) as an injective opaque
// token: a token is interned by the syntactic preimage (sequence of byte terms);
// equality of two tokens is rewritten structurally into equality of preimages
// (assumption A1: no collisions, and the code depends on nothing else about the hash).

import (
	"strconv"
	"strings"
)

type Token struct {
	ID   int
	Algo string
	Pre  []*Term // each W==8
	conc []byte  // real digest when the preimage is fully concrete (filled lazily)
}

func (f *Factory) Token(algo string, pre []*Term) *Token {
	var sb strings.Builder
	sb.WriteString(algo)
	for _, p := range pre {
		sb.WriteByte(',')
		sb.WriteString(strconv.Itoa(p.id))
	}
	k := sb.String()
	if t, ok := f.toks[k]; ok {
		return t
	}
	f.ntok++
	t := &Token{ID: f.ntok, Algo: algo, Pre: append([]*Term(nil), pre...)}
	f.toks[k] = t
	return t
}

func (f *Factory) HashByte(tok *Token, i int) *Term {
	return f.mk(&Term{Op: OpHashByte, W: 8, Val: uint64(i), Tok: tok})
}

// TokEq returns the Bool term "tokens a and b denote the same digest".
func (f *Factory) TokEq(a, b *Token) *Term {
	if a == b {
		return f.True
	}
	if a.Algo != b.Algo || len(a.Pre) != len(b.Pre) {
		return f.False
	}
	k := [2]int{a.ID, b.ID}
	if k[0] > k[1] {
		k[0], k[1] = k[1], k[0]
	}
	if t, ok := f.tokEqM[k]; ok {
		return t
	}
	// Preimages containing hash bytes: consecutive runs of 32 bytes of the same
	// token compare as one token equality thanks to And() de-duplication.
	cs := make([]*Term, 0, len(a.Pre))
	for i := range a.Pre {
		c := f.Eq(a.Pre[i], b.Pre[i])
		if c == f.False {
			f.tokEqM[k] = f.False
			return f.False
		}
		cs = append(cs, c)
	}
	r := f.And(cs...)
	f.tokEqM[k] = r
	return r
}
