package symgo

// Value representation: derived from golang.org/x/tools/go/ssa/interp (BSD licence,
// Copyright 2013 The Go Authors), rewritten so that scalars may be SMT terms.
//
// - bool, numbers, string                      concrete scalars (as in interp)
// - *Sym                                       symbolic bool / integer (term + Go basic kind)
// - *SymStr                                    string with (some) symbolic bytes
// - *amap                                      every Go map: insertion-ordered association list
// - *chanObj                                   channels (cooperative scheduler)
// - []value, iface, structure, array, *value, *ssa.Function, *ssa.Builtin, *closure, tuple, iter

import (
	"bytes"
	"fmt"
	"go/types"
	"strings"
	"unsafe"

	"golang.org/x/tools/go/ssa"
)

type value interface{}

type tuple []value

type array []value

type iface struct {
	t types.Type // never an "untyped" type
	v value
}

type structure []value

type iter interface {
	next() tuple
}

type closure struct {
	Fn  *ssa.Function
	Env []value
}

type bad struct{}

// Sym is a symbolic scalar.
type Sym struct {
	T *Term
	K types.BasicKind
}

// SymStr is an immutable string some of whose bytes are symbolic.
type SymStr struct {
	b []value // uint8 or *Sym(Uint8)
}

func kindWidth(k types.BasicKind) uint8 {
	switch k {
	case types.Bool, types.UntypedBool:
		return 0
	case types.Int8, types.Uint8:
		return 8
	case types.Int16, types.Uint16:
		return 16
	case types.Int32, types.Uint32, types.UntypedRune:
		return 32
	case types.Int, types.Int64, types.Uint, types.Uint64, types.Uintptr, types.UntypedInt:
		return 64
	}
	panic(fmt.Sprintf("symgo: internal: kindWidth: unsupported kind %v", k))
}

func kindSigned(k types.BasicKind) bool {
	switch k {
	case types.Int, types.Int8, types.Int16, types.Int32, types.Int64, types.UntypedInt, types.UntypedRune:
		return true
	}
	return false
}

func kindOf(v value) types.BasicKind {
	switch x := v.(type) {
	case bool:
		return types.Bool
	case int:
		return types.Int
	case int8:
		return types.Int8
	case int16:
		return types.Int16
	case int32:
		return types.Int32
	case int64:
		return types.Int64
	case uint:
		return types.Uint
	case uint8:
		return types.Uint8
	case uint16:
		return types.Uint16
	case uint32:
		return types.Uint32
	case uint64:
		return types.Uint64
	case uintptr:
		return types.Uintptr
	case *Sym:
		return x.K
	}
	return types.Invalid
}

// bitsOf returns the two's complement bits of a concrete integer/bool value.
func bitsOf(v value) (uint64, bool) {
	switch x := v.(type) {
	case bool:
		if x {
			return 1, true
		}
		return 0, true
	case int:
		return uint64(x), true
	case int8:
		return uint64(x), true
	case int16:
		return uint64(x), true
	case int32:
		return uint64(x), true
	case int64:
		return uint64(x), true
	case uint:
		return uint64(x), true
	case uint8:
		return uint64(x), true
	case uint16:
		return uint64(x), true
	case uint32:
		return uint64(x), true
	case uint64:
		return x, true
	case uintptr:
		return uint64(x), true
	}
	return 0, false
}

// fromBits builds the concrete Go value of kind k from bits.
func fromBits(b uint64, k types.BasicKind) value {
	switch k {
	case types.Bool, types.UntypedBool:
		return b != 0
	case types.Int, types.UntypedInt:
		return int(b)
	case types.Int8:
		return int8(b)
	case types.Int16:
		return int16(b)
	case types.Int32, types.UntypedRune:
		return int32(b)
	case types.Int64:
		return int64(b)
	case types.Uint:
		return uint(b)
	case types.Uint8:
		return uint8(b)
	case types.Uint16:
		return uint16(b)
	case types.Uint32:
		return uint32(b)
	case types.Uint64:
		return b
	case types.Uintptr:
		return uintptr(b)
	}
	panic(fmt.Sprintf("symgo: internal: fromBits: kind %v", k))
}

// termOf converts a scalar value (concrete or symbolic) to a term.
func (m *Machine) termOf(v value) *Term {
	if s, ok := v.(*Sym); ok {
		return s.T
	}
	b, ok := bitsOf(v)
	if !ok {
		panic(fmt.Sprintf("symgo: internal: termOf: not a scalar: %T", v))
	}
	return m.F.Const(b, kindWidth(kindOf(v)))
}

// wrap converts a term back to a value of kind k, folding constants to concrete values.
func wrap(t *Term, k types.BasicKind) value {
	if t.Op == OpConst {
		return fromBits(t.Val, k)
	}
	return &Sym{T: t, K: k}
}

func isSym(v value) bool {
	_, ok := v.(*Sym)
	return ok
}

// ---- maps

type mapEntry struct {
	key, val value
	deleted  bool
}

type amap struct {
	ents []*mapEntry
	idx  map[interface{}]*mapEntry
	nsym int
	kt   types.Type
}

func newAmap(kt types.Type) *amap {
	return &amap{idx: map[interface{}]*mapEntry{}, kt: kt}
}

// concreteKey returns a Go-comparable canonical form of v if v is fully concrete.
func concreteKey(v value) (interface{}, bool) {
	switch x := v.(type) {
	case bool, int, int8, int16, int32, int64, uint, uint8, uint16, uint32, uint64, uintptr, float32, float64, string, *value, *chanObj, unsafe.Pointer:
		return x, true
	case *Sym, *SymStr:
		return nil, false
	case array:
		var sb strings.Builder
		sb.WriteString("A[")
		for _, e := range x {
			k, ok := concreteKey(e)
			if !ok {
				return nil, false
			}
			fmt.Fprintf(&sb, "%T:%v|", k, k)
		}
		return sb.String(), true
	case structure:
		var sb strings.Builder
		sb.WriteString("S{")
		for _, e := range x {
			k, ok := concreteKey(e)
			if !ok {
				return nil, false
			}
			fmt.Fprintf(&sb, "%T:%v|", k, k)
		}
		return sb.String(), true
	case iface:
		if x.t == nil {
			return "I<nil>", true
		}
		k, ok := concreteKey(x.v)
		if !ok {
			return nil, false
		}
		return fmt.Sprintf("I<%s>%T:%v", x.t.String(), k, k), true
	}
	panic(fmt.Sprintf("unhashable map key %T", v))
}

func (mp *amap) len() int {
	n := 0
	for _, e := range mp.ents {
		if !e.deleted {
			n++
		}
	}
	return n
}

func (mp *amap) compact() {
	if len(mp.ents) < 32 {
		return
	}
	dead := 0
	for _, e := range mp.ents {
		if e.deleted {
			dead++
		}
	}
	if dead*2 < len(mp.ents) {
		return
	}
	out := mp.ents[:0:0]
	for _, e := range mp.ents {
		if !e.deleted {
			out = append(out, e)
		}
	}
	mp.ents = out
}

func (m *Machine) mapFind(mp *amap, key value) *mapEntry {
	ck, conc := concreteKey(key)
	if conc && mp.nsym == 0 {
		return mp.idx[ck]
	}
	if conc {
		if e := mp.idx[ck]; e != nil {
			return e
		}
	}
	for _, e := range mp.ents {
		if e.deleted {
			continue
		}
		if conc {
			if _, c2 := concreteKey(e.key); c2 {
				continue // concrete vs concrete already answered by idx
			}
		}
		if m.truth(m.equalsV(mp.kt, e.key, key)) {
			return e
		}
	}
	return nil
}

func (m *Machine) mapSet(mp *amap, key, val value) {
	if e := m.mapFind(mp, key); e != nil {
		e.val = val
		return
	}
	e := &mapEntry{key: key, val: val}
	mp.ents = append(mp.ents, e)
	if ck, ok := concreteKey(key); ok {
		mp.idx[ck] = e
	} else {
		mp.nsym++
	}
}

func (m *Machine) mapDelete(mp *amap, key value) {
	e := m.mapFind(mp, key)
	if e == nil {
		return
	}
	e.deleted = true
	if ck, ok := concreteKey(e.key); ok {
		delete(mp.idx, ck)
	} else {
		mp.nsym--
	}
	mp.compact()
}

type amapIter struct {
	ents []*mapEntry
	i    int
}

func (it *amapIter) next() tuple {
	for it.i < len(it.ents) {
		e := it.ents[it.i]
		it.i++
		if !e.deleted {
			return tuple{true, e.key, e.val}
		}
	}
	return tuple{false, nil, nil}
}

// ---- strings

func strLen(v value) int {
	switch s := v.(type) {
	case string:
		return len(s)
	case *SymStr:
		return len(s.b)
	}
	panic(fmt.Sprintf("symgo: internal: strLen: %T", v))
}

func strBytes(v value) []value {
	switch s := v.(type) {
	case string:
		out := make([]value, len(s))
		for i := 0; i < len(s); i++ {
			out[i] = s[i]
		}
		return out
	case *SymStr:
		return s.b
	}
	panic(fmt.Sprintf("symgo: internal: strBytes: %T", v))
}

// mkStr builds a string value from byte values, concrete when possible. The slice is copied.
func mkStr(b []value) value {
	conc := true
	for _, x := range b {
		if _, ok := x.(uint8); !ok {
			conc = false
			break
		}
	}
	if conc {
		bs := make([]byte, len(b))
		for i, x := range b {
			bs[i] = x.(uint8)
		}
		return string(bs)
	}
	return &SymStr{b: append([]value(nil), b...)}
}

// ---- load/store with value semantics for aggregates

func load(T types.Type, addr *value) value {
	switch T := T.Underlying().(type) {
	case *types.Struct:
		v := (*addr).(structure)
		a := make(structure, len(v))
		for i := range a {
			a[i] = load(T.Field(i).Type(), &v[i])
		}
		return a
	case *types.Array:
		v := (*addr).(array)
		a := make(array, len(v))
		for i := range a {
			a[i] = load(T.Elem(), &v[i])
		}
		return a
	default:
		return *addr
	}
}

func store(T types.Type, addr *value, v value) {
	switch T := T.Underlying().(type) {
	case *types.Struct:
		lhs := (*addr).(structure)
		rhs := v.(structure)
		for i := range lhs {
			store(T.Field(i).Type(), &lhs[i], rhs[i])
		}
	case *types.Array:
		lhs := (*addr).(array)
		rhs := v.(array)
		for i := range lhs {
			store(T.Elem(), &lhs[i], rhs[i])
		}
	default:
		*addr = v
	}
}

// copyVal makes an unaliased copy of an aggregate value (structs/arrays are values in Go).
func copyVal(v value) value {
	switch x := v.(type) {
	case structure:
		a := make(structure, len(x))
		for i := range x {
			a[i] = copyVal(x[i])
		}
		return a
	case array:
		a := make(array, len(x))
		for i := range x {
			a[i] = copyVal(x[i])
		}
		return a
	}
	return v
}

// ---- printing (diagnostics)

func writeValue(buf *bytes.Buffer, v value, depth int) {
	if depth > 4 {
		buf.WriteString("…")
		return
	}
	switch v := v.(type) {
	case nil, bool, int, int8, int16, int32, int64, uint, uint8, uint16, uint32, uint64, uintptr, float32, float64, complex64, complex128:
		fmt.Fprintf(buf, "%v", v)
	case string:
		fmt.Fprintf(buf, "%q", v)
	case *Sym:
		fmt.Fprintf(buf, "<sym %s>", v.T.String())
	case *SymStr:
		buf.WriteString("symstr[")
		for i, e := range v.b {
			if i > 0 {
				buf.WriteString(" ")
			}
			writeValue(buf, e, depth+1)
		}
		buf.WriteString("]")
	case *amap:
		buf.WriteString("map[")
		if v != nil {
			for i, e := range v.ents {
				if e.deleted {
					continue
				}
				if i > 0 {
					buf.WriteString(" ")
				}
				writeValue(buf, e.key, depth+1)
				buf.WriteString(":")
				writeValue(buf, e.val, depth+1)
			}
		}
		buf.WriteString("]")
	case *chanObj:
		fmt.Fprintf(buf, "chan(%p)", v)
	case *value:
		if v == nil {
			buf.WriteString("<nil>")
		} else {
			fmt.Fprintf(buf, "%p", v)
		}
	case iface:
		if v.t == nil {
			buf.WriteString("<nil iface>")
			return
		}
		fmt.Fprintf(buf, "(%s, ", v.t)
		writeValue(buf, v.v, depth+1)
		buf.WriteString(")")
	case structure:
		buf.WriteString("{")
		for i, e := range v {
			if i > 0 {
				buf.WriteString(" ")
			}
			writeValue(buf, e, depth+1)
		}
		buf.WriteString("}")
	case array:
		buf.WriteString("[")
		for i, e := range v {
			if i > 0 {
				buf.WriteString(" ")
			}
			writeValue(buf, e, depth+1)
		}
		buf.WriteString("]")
	case []value:
		buf.WriteString("[")
		for i, e := range v {
			if i > 0 {
				buf.WriteString(" ")
			}
			if i > 40 {
				buf.WriteString("…")
				break
			}
			writeValue(buf, e, depth+1)
		}
		buf.WriteString("]")
	case *ssa.Function, *ssa.Builtin, *closure:
		fmt.Fprintf(buf, "%p", v)
	case tuple:
		buf.WriteString("(")
		for i, e := range v {
			if i > 0 {
				buf.WriteString(", ")
			}
			writeValue(buf, e, depth+1)
		}
		buf.WriteString(")")
	default:
		fmt.Fprintf(buf, "<%T>", v)
	}
}

func toString(v value) string {
	var b bytes.Buffer
	writeValue(&b, v, 0)
	return b.String()
}
