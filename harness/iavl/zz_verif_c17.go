package iavl

// C17 Storage failures surface as errors, never as wrong or partial answers.
// The fault position is a variable: the storage call with index failAt returns an error.

import (
	"errors"
)

var _ = vReg("C17_Fault_Reads", C17_Fault_Reads)
var _ = vReg("C17_Fault_Writes", C17_Fault_Writes)

func c17cfg(name string) (*vHistCfg, int, int) {
	cfg := &vHistCfg{name: name, nKeys: 2, lenVars: 1, valVars: 1,
		caches: []int{0}, fast: []bool{false, true}, thresh: []int{0}, refHash: true}
	maxV, maxW := 2, 1
	if vTier() == "thorough" {
		maxV, maxW = 2, 2
	}
	return cfg, maxV, maxW
}

// C17_Fault_Reads: every read interface that has an error result, with one failing storage call.
func C17_Fault_Reads() {
	cfg, maxV, maxW := c17cfg("C17_Fault_Reads")
	h := vStartHist(cfg)
	h.vBuildVersions(maxV, maxW)
	// fresh tree (nothing cached) on the same store
	h.open()
	_, err := h.tree.Load()
	vAssert(err == nil, "c17:load")
	h.resetWorkToLatest()
	n := h.p.n
	v := h.first + int64(vChoice("version", int(h.latest-h.first+1)))
	m := h.vers[v]
	maxJ := 10
	if vTier() == "thorough" {
		maxJ = 20
	}
	j := vChoice("failAt", maxJ+1)
	c0 := h.db.calls
	h.db.failAt = c0 + j
	i := vChoice("key", n)
	k := h.p.keys[i]
	switch vChoice("read", 9) {
	case 0: // Get on the latest (fast index or tree walk)
		val, err := h.tree.Get(k)
		if err == nil {
			c17value(val, h.work, i, "c17:get")
		}
	case 1:
		has, err := h.tree.Has(k)
		if err == nil {
			vAssert(has == h.work.present[i], "c17:has-wrong-answer-without-error")
		}
	case 2:
		idx, val, err := h.tree.GetWithIndex(k)
		if err == nil {
			vAssert(idx == int64(h.work.rankOf(i)), "c17:getwithindex-wrong-index-without-error")
			c17value(val, h.work, i, "c17:getwithindex")
		}
	case 3:
		r := vChoice("rank", n)
		key, val, err := h.tree.GetByIndex(int64(r))
		if err == nil {
			pi := h.work.nth(n, r)
			if pi >= 0 {
				vAssert(key != nil && vConcreteBool(vEqBytes(key, h.p.keys[pi])), "c17:getbyindex-wrong-key-without-error")
				vAssert(vEqBytes(val, h.work.vals[pi]), "c17:getbyindex-wrong-value-without-error")
			} else {
				vAssert(key == nil, "c17:getbyindex-phantom-without-error")
			}
		}
	case 4: // callback iteration
		cnt := 0
		_, err := h.tree.Iterate(func(key, value []byte) bool { cnt++; return false })
		if err == nil {
			vAssert(cnt == h.work.size(n), "c17:iterate-short-without-error")
		}
	case 5: // iterator object: the error is reported by Error()/Close()
		it, err := h.tree.Iterator(nil, nil, true)
		if err == nil {
			cnt := 0
			for ; it.Valid(); it.Next() {
				cnt++
			}
			ierr := it.Error()
			cerr := it.Close()
			if ierr == nil && cerr == nil {
				vAssert(cnt == h.work.size(n), "c17:iterator-short-without-error")
			}
		}
	case 6: // versioned lookup
		val, err := h.tree.GetVersioned(k, v)
		if err == nil {
			c17value(val, m, i, "c17:getversioned")
		}
	case 7: // historical tree
		it, err := h.tree.GetImmutable(v)
		if err == nil {
			val, err := it.Get(k)
			if err == nil {
				c17value(val, m, i, "c17:immutable-get")
			}
			if m.size(n) > 0 {
				p, err := it.GetProof(k)
				if err == nil {
					vAssert(p != nil, "c17:nil-proof-without-error")
				}
			}
		}
	case 8: // export: the complete post-order stream or an error
		it, err := h.tree.GetImmutable(v)
		if err == nil {
			ex, err := it.Export()
			if err == nil {
				cnt := 0
				var last error
				for {
					_, e := ex.Next()
					if e != nil {
						last = e
						break
					}
					cnt++
				}
				ex.Close()
				if errors.Is(last, ErrorExportDone) {
					want := len(rPostOrder(h.refRoots[v], nil))
					if h.db.failed > 0 {
						// region of finding F7: a node read failed while the export goroutine walked the tree
						vRegion("F7:export-ends-with-ErrorExportDone-after-a-failed-node-read")
					}
					vAssert(cnt == want, "c17:export-short-without-error")
					vRegion("")
				}
			}
		}
	}
	vAssert(h.db.calls-c0 <= maxJ, "c17:read-makes-more-storage-calls-than-fault-positions-explored")
	if h.db.failed > 0 {
		vCover("fault-hit")
	} else {
		vCover("fault-not-reached")
	}
}

func c17value(val []byte, m *vModel, i int, tag string) {
	if m.present[i] {
		vAssert(val != nil, tag+"-absent-without-error")
		if val != nil {
			vAssert(vEqBytes(val, m.vals[i]), tag+"-wrong-value-without-error")
		}
	} else {
		vAssert(val == nil, tag+"-phantom-without-error")
	}
}

// C17_Fault_Writes: commit, deletion, rollback-to-version and import with one failing storage call:
// an operation that returned nil is complete; after a reported failure the store reopens to the
// state before or after the operation.
func C17_Fault_Writes() {
	cfg, maxV, maxW := c17cfg("C17_Fault_Writes")
	if vTier() == "thorough" {
		cfg.thresh = []int{0, 101}
	}
	h := vStartHist(cfg)
	h.vBuildVersions(maxV, maxW)
	n := h.p.n
	maxJ := 24
	if vTier() == "thorough" {
		maxJ = 30
	}
	before := h.latest
	op := vChoice("op", 3)
	var after int64
	var afterModel *vModel
	pruneTo := int64(0)
	switch op {
	case 0:
		c := vChoice("write", 2*n)
		if c < n {
			h.doSet(c)
		} else {
			h.doRemove(c - n)
		}
		after = h.nextVersion()
		afterModel = h.work.clone()
	case 1:
		if h.latest < 2 {
			vStop()
		}
		pruneTo = h.first + int64(vChoice("pruneTo", int(h.latest-h.first)))
	case 2:
		if h.latest < 2 {
			vStop()
		}
		after = h.first + int64(vChoice("target", int(h.latest-h.first)))
	}
	j := vChoice("failAt", maxJ+1)
	c0 := h.db.calls
	w0 := h.db.writes
	h.db.failAt = c0 + j
	var err error
	switch op {
	case 0:
		_, _, err = h.tree.SaveVersion()
	case 1:
		err = h.tree.DeleteVersionsTo(pruneTo)
	case 2:
		err = h.tree.LoadVersionForOverwriting(after)
	}
	vAssert(h.db.calls-c0 <= maxJ, "c17:write-makes-more-storage-calls-than-fault-positions-explored")
	h.db.failAt = -1
	if h.db.failed > 0 {
		vCover("write-fault-hit")
	}
	if err == nil {
		// reported as successful: must be complete
		switch op {
		case 0:
			h.vers[after] = afterModel
			h.refRoots[after] = h.workRef
			rCommit(h.workRef, after)
			h.refHash[after] = rHash(h.workRef, after)
			h.latest = after
			if h.first == 0 {
				h.first = after
			}
			h.dirty = false
		case 1:
			h.first = pruneTo + 1
		case 2:
			h.latest = after
			h.resetWorkToLatest()
		}
		vAuditReads(h.tree, h.p, h.work, "c17:success-means-complete:work")
		c05AuditVersions(h, h.first, h.latest, "c17:success-means-complete")
		r := c05Recover(h)
		lv, lerr := r.tree.Load()
		vAssert(lerr == nil && lv == h.latest, "c17:success-means-durable")
		c05AuditVersions(r, r.first, r.latest, "c17:success-means-durable")
		vCover("write-succeeded")
		return
	}
	vCover("write-failed")
	// reported failure: the store reopens to the state before or after the operation
	r := c05Recover(h)
	lv, lerr := r.tree.Load()
	if h.thr > 0 && h.db.writes-w0 >= 1 {
		// regions of findings F3 / F15 (seen through a failing write instead of a stop): the flush threshold
		// split the operation's batch and an earlier part of it had already reached the store
		if op == 0 {
			vRegion("F3:commit-interrupted-between-its-physical-writes-leaves-a-mixed-state")
		} else if op == 2 {
			vRegion("F15:rollback-to-version-interrupted-between-its-physical-writes-leaves-a-mixed-state")
		}
	}
	vAssert(lerr == nil, "c17:reopen-after-reported-failure")
	if lerr != nil {
		return
	}
	switch op {
	case 0:
		vAssert(lv == before || lv == after, "c17:commit-failure-leaves-neither-old-nor-new")
		if lv == after && after != before {
			r.vers[after] = afterModel
			r.latest = after
			c05AuditVersions(r, r.first, before, "c17:failed-commit-kept")
		} else {
			r.latest = before
			c05AuditVersions(r, r.first, before, "c17:failed-commit-kept")
		}
	case 1:
		vAssert(lv == before, "c17:failed-prune-changed-latest")
		c05AuditVersions(r, pruneTo+1, before, "c17:failed-prune-kept")
	case 2:
		vAssert(lv == before || lv == after, "c17:failed-rollback-leaves-neither-old-nor-new")
		c05AuditVersions(r, r.first, lv, "c17:failed-rollback-kept")
	}
}

var _ = vReg("C17_Fault_ShapeReads", C17_Fault_ShapeReads)

// C17_Fault_ShapeReads: point reads on every AVL+ tree of height <= 2 (so that lookups turn left and
// right below the root), committed and reopened with nothing cached, with one failing storage call.
func C17_Fault_ShapeReads() {
	cfg := &vHistCfg{name: "C17_Fault_ShapeReads", lenVars: 1, valVars: 1, caches: []int{0}, fast: []bool{false, true}, thresh: []int{0}}
	maxH := 2
	if vTier() == "thorough" {
		maxH = 3
	}
	h := vShapeState(cfg, maxH, 1, []int{2})
	n := h.p.n
	if n == 0 {
		vStop()
	}
	maxJ := 8
	if vTier() == "thorough" {
		maxJ = 12
	}
	j := vChoice("failAt", maxJ+1)
	i := vChoice("key", n)
	k := h.p.keys[i]
	c0 := h.db.calls
	h.db.failAt = c0 + j
	switch vChoice("read", 5) {
	case 0:
		val, err := h.tree.Get(k)
		if err == nil {
			c17value(val, h.work, i, "c17s:get")
		}
	case 1:
		has, err := h.tree.Has(k)
		if err == nil {
			vAssert(has == h.work.present[i], "c17s:has-wrong-answer-without-error")
		}
	case 2:
		idx, val, err := h.tree.GetWithIndex(k)
		if err == nil {
			vAssert(idx == int64(h.work.rankOf(i)), "c17s:getwithindex-wrong-index-without-error")
			c17value(val, h.work, i, "c17s:getwithindex")
		}
	case 3:
		r := vChoice("rank", n)
		key, val, err := h.tree.GetByIndex(int64(r))
		if err == nil {
			pi := h.work.nth(n, r)
			if pi >= 0 {
				vAssert(key != nil && vConcreteBool(vEqBytes(key, h.p.keys[pi])), "c17s:getbyindex-wrong-key-without-error")
				vAssert(vEqBytes(val, h.work.vals[pi]), "c17s:getbyindex-wrong-value-without-error")
			} else {
				vAssert(key == nil, "c17s:getbyindex-phantom-without-error")
			}
		}
	case 4:
		if h.work.size(n) > 0 {
			p, err := h.tree.GetProof(k)
			if err == nil {
				vAssert(p != nil, "c17s:nil-proof-without-error")
				if h.work.present[i] {
					vAssert(p.GetExist() != nil && vConcreteBool(vEqBytes(p.GetExist().Value, h.work.vals[i])), "c17s:wrong-proof-without-error")
				} else {
					vAssert(p.GetNonexist() != nil, "c17s:wrong-proof-kind-without-error")
				}
			}
		}
	}
	vAssert(h.db.calls-c0 <= maxJ+8, "c17s:read-makes-more-storage-calls-than-fault-positions-explored")
	if h.db.failed > 0 {
		vCover("shape-fault-hit")
	}
}
