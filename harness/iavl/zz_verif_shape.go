package iavl

// T2: one step from an arbitrary valid state. The pre-state is every tree satisfying the
// AVL+ representation invariant up to a height bound (shape chosen by vChoice, keys symbolic
// and ordered), in one of three persistence patterns, built directly as *Node structures
// (and, for the persisted patterns, saved through the real SaveVersion).

type vShape struct {
	l, r   *vShape
	h      int8
	leaves int
}

// vChooseShape picks an AVL shape of exact height h (every shape is explored).
func vChooseShape(h int) *vShape {
	if h == 0 {
		return &vShape{h: 0, leaves: 1}
	}
	lh, rh := h-1, h-1
	if h >= 2 {
		switch vChoice("shape", 3) {
		case 1:
			rh = h - 2
		case 2:
			lh = h - 2
		}
	}
	l := vChooseShape(lh)
	r := vChooseShape(rh)
	return &vShape{l: l, r: r, h: int8(h), leaves: l.leaves + r.leaves}
}

type vBuilt struct {
	node *Node
	ref  *rNode
	min  int // pool index of the smallest key in the subtree
}

func vBuildShape(s *vShape, p *vPool, idx []int, next *int, m *vModel) vBuilt {
	if s.h == 0 {
		i := idx[*next]
		*next++
		val := vBytes("val", 1)
		m.present[i] = true
		m.vals[i] = val
		return vBuilt{node: NewNode(p.keys[i], val), ref: rLeaf(2*i, p.keys[i], val), min: i}
	}
	l := vBuildShape(s.l, p, idx, next, m)
	r := vBuildShape(s.r, p, idx, next, m)
	key := p.keys[r.min]
	n := &Node{key: key, subtreeHeight: s.h, size: l.node.size + r.node.size, leftNode: l.node, rightNode: r.node}
	return vBuilt{node: n, ref: rInner(2*r.min, key, l.ref, r.ref), min: l.min}
}

// vShapeState returns a history object whose tree is an arbitrary valid state:
// height in [-1 (empty), maxH], every shape, pool of leaves+extra keys of which `extra`
// (chosen positions) are absent, persistence mode in modes:
//
//	0 all nodes new (never saved)   1 saved, same tree object (cache as configured)
//	2 saved and reopened with cache 0 (every node comes from storage)
func vShapeState(cfg *vHistCfg, maxH int, extra int, modes []int) *vHist {
	h := &vHist{cfg: cfg, db: newVDB(), work: &vModel{}, vers: map[int64]*vModel{}, refRoots: map[int64]*rNode{}, refHash: map[int64][]byte{}}
	hc := vChoice("height", maxH+2) - 1
	var shape *vShape
	leaves := 0
	if hc >= 0 {
		shape = vChooseShape(hc)
		leaves = shape.leaves
	}
	n := leaves + extra
	h.p = vNewPool(n, vLenVectorFor(cfg, n))
	// which pool indices are absent: choose `extra` positions (ascending)
	idx := make([]int, 0, leaves)
	skip := make([]bool, n)
	lo := 0
	for e := 0; e < extra; e++ {
		j := lo + vChoice("absent", n-lo-(extra-e-1))
		skip[j] = true
		lo = j + 1
	}
	for i := 0; i < n; i++ {
		if !skip[i] {
			idx = append(idx, i)
		}
	}
	h.cache = cfg.caches[0]
	if len(cfg.caches) > 1 {
		h.cache = cfg.caches[vChoice("cache", len(cfg.caches))]
	}
	h.fastOn = cfg.fast[0]
	if len(cfg.fast) > 1 {
		h.fastOn = cfg.fast[vChoice("fast", len(cfg.fast))]
	}
	h.thr = cfg.thresh[0]
	h.open()
	_, err := h.tree.Load()
	vAssert(err == nil, "shape:load-empty")
	if shape != nil {
		next := 0
		b := vBuildShape(shape, h.p, idx, &next, h.work)
		h.tree.root = b.node
		h.workRef = b.ref
		if h.fastOn {
			// the fast index tracks unsaved additions: register the leaves as such
			for _, i := range idx {
				h.tree.addUnsavedAddition(h.p.keys[i], fastnodeNew(h.p.keys[i], h.work.vals[i], 1))
			}
		}
		h.dirty = true
	}
	mode := modes[0]
	if len(modes) > 1 {
		mode = modes[vChoice("persist", len(modes))]
	}
	if mode >= 1 {
		h.doCommit()
	}
	if mode == 2 {
		h.cache = 0
		h.open()
		v, err := h.tree.Load()
		vAssert(err == nil, "shape:reload")
		vAssert(v == h.latest, "shape:reload-version")
	}
	return h
}
