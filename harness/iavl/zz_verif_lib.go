package iavl

// Shared harness library: ordered symbolic key pool, versioned-map model, reference
// IAVL+ (written from docs/node/node.md, docs/tree/mutable_tree.md and the proof spec,
// see harness/ref/PINS.md), audits of every read path against the model.

import (
	"bytes"
	"crypto/sha256"

	"github.com/cosmos/iavl/fastnode"
)

const vMaxPool = 18

// ---------------------------------------------------------------- key pool

type vPool struct {
	n    int
	keys [vMaxPool][]byte
}

// vNewPool creates n symbolic keys k0 < k1 < ... (strict order assumed). lens[i] is the
// length of key i; a length of 130 means 2 symbolic bytes followed by a fixed 128-byte tail.
func vNewPool(n int, lens []int) *vPool {
	p := &vPool{n: n}
	for i := 0; i < n; i++ {
		p.keys[i] = vKeyOfLen("k"+string(rune('a'+i)), lens[i])
	}
	vOrdered(p.keys[:n])
	return p
}

func vKeyOfLen(tag string, l int) []byte {
	if l <= 2 {
		return vBytes(tag, l)
	}
	k := vBytes(tag, 2)
	for i := 0; i < l-2; i++ {
		k = append(k, byte(0xA0+i%7))
	}
	return k
}

// vLenVector picks the key-length vector for a pool of n keys.
// quick: one representative vector (1,2,1,2,...), thorough: a choice among several.
func vLenVector(n int, variants int) []int {
	c := 0
	if variants > 1 {
		c = vChoice("lens", variants)
	}
	return vLenVectorOf(n, c)
}

// vLenVectorFor follows cfg.lenSet (explicit variants) when it is set, else cfg.lenVars.
func vLenVectorFor(cfg *vHistCfg, n int) []int {
	if len(cfg.lenSet) > 0 {
		return vLenVectorOf(n, cfg.lenSet[vChoice("lens", len(cfg.lenSet))])
	}
	return vLenVector(n, cfg.lenVars)
}

func vLenVectorOf(n int, c int) []int {
	out := make([]int, n)
	for i := range out {
		switch c {
		case 0: // alternating 1,2: prefix pairs (k, k||x) are inside
			out[i] = 1 + i%2
		case 1:
			out[i] = 1
		case 2:
			out[i] = 2
		case 3: // long keys: length prefix needs 2 varint bytes
			out[i] = 1 + i%2
			if i == n/2 {
				out[i] = 130
			}
		case 5: // the smallest key is the empty key
			out[i] = 1 + i%2
			if i == 0 {
				out[i] = 0
			}
		default:
			out[i] = 2 - i%2
		}
	}
	return out
}

// vLocate returns rank = number of pool keys < k, and whether k equals pool key #rank (forks).
func (p *vPool) vLocate(k []byte) (rank int, eq bool) {
	for i := 0; i < p.n; i++ {
		if vConcreteBool(vLessBytes(k, p.keys[i])) {
			return i, false
		}
		if vConcreteBool(vEqBytes(k, p.keys[i])) {
			return i, true
		}
	}
	return p.n, false
}

// ---------------------------------------------------------------- model

type vModel struct {
	present [vMaxPool]bool
	vals    [vMaxPool][]byte
}

func (m *vModel) clone() *vModel {
	c := *m
	return &c
}

func (m *vModel) size(n int) int {
	c := 0
	for i := 0; i < n; i++ {
		if m.present[i] {
			c++
		}
	}
	return c
}

// rankOf returns the number of present keys with pool index < i.
func (m *vModel) rankOf(i int) int {
	c := 0
	for j := 0; j < i; j++ {
		if m.present[j] {
			c++
		}
	}
	return c
}

// nth returns the pool index of the r-th present key, or -1.
func (m *vModel) nth(n, r int) int {
	if r < 0 {
		return -1
	}
	for i := 0; i < n; i++ {
		if m.present[i] {
			if r == 0 {
				return i
			}
			r--
		}
	}
	return -1
}

func (m *vModel) equal(o *vModel, n int) bool {
	for i := 0; i < n; i++ {
		if m.present[i] != o.present[i] {
			return false
		}
	}
	return true
}

// vNewValue returns a fresh symbolic value: empty or one symbolic byte (or long).
func vNewValue(tag string, variants int) []byte {
	c := 0
	if variants > 1 {
		c = vChoice(tag+"len", variants)
	}
	switch c {
	case 0:
		return vBytes(tag, 1)
	case 1:
		return []byte{}
	default:
		v := vBytes(tag, 1)
		for i := 0; i < 130; i++ {
			v = append(v, byte(i))
		}
		return v
	}
}

// ---------------------------------------------------------------- reference IAVL+

type rNode struct {
	ki          int // order index of key (see rSet)
	key, value  []byte
	height      int8
	size        int64
	version     int64 // 0 = created in the working version
	left, right *rNode
	hash        []byte
}

func rVarint(buf []byte, x int64) []byte {
	ux := uint64(x) << 1
	if x < 0 {
		ux = ^ux
	}
	for ux >= 0x80 {
		buf = append(buf, byte(ux)|0x80)
		ux >>= 7
	}
	return append(buf, byte(ux))
}

func rUvarint(buf []byte, ux uint64) []byte {
	for ux >= 0x80 {
		buf = append(buf, byte(ux)|0x80)
		ux >>= 7
	}
	return append(buf, byte(ux))
}

func rBytes(buf []byte, b []byte) []byte {
	buf = rUvarint(buf, uint64(len(b)))
	return append(buf, b...)
}

func rSha(b []byte) []byte {
	h := sha256.Sum256(b)
	return h[:]
}

// rHash computes the node hash; nodes created in the working version hash with workingVersion.
func rHash(n *rNode, workingVersion int64) []byte {
	if n == nil {
		return rSha(nil)
	}
	if n.hash != nil {
		return n.hash
	}
	v := n.version
	if v == 0 {
		v = workingVersion
	}
	var buf []byte
	buf = rVarint(buf, int64(n.height))
	buf = rVarint(buf, n.size)
	buf = rVarint(buf, v)
	if n.height == 0 {
		buf = rBytes(buf, n.key)
		buf = rBytes(buf, rSha(n.value))
	} else {
		buf = rBytes(buf, rHash(n.left, workingVersion))
		buf = rBytes(buf, rHash(n.right, workingVersion))
	}
	n.hash = rSha(buf)
	return n.hash
}

func rLeaf(ki int, key, value []byte) *rNode {
	return &rNode{ki: ki, key: key, value: value, height: 0, size: 1}
}

func rInner(ki int, key []byte, l, r *rNode) *rNode {
	h := l.height
	if r.height > h {
		h = r.height
	}
	return &rNode{ki: ki, key: key, height: h + 1, size: l.size + r.size, left: l, right: r}
}

func rBal(n *rNode) int { return int(n.left.height) - int(n.right.height) }

// rotations create new nodes (working version) for both nodes involved
func rRotR(n *rNode) *rNode {
	l := n.left
	return rInner(l.ki, l.key, l.left, rInner(n.ki, n.key, l.right, n.right))
}

func rRotL(n *rNode) *rNode {
	r := n.right
	return rInner(r.ki, r.key, rInner(n.ki, n.key, n.left, r.left), r.right)
}

func rBalance(n *rNode) *rNode {
	b := rBal(n)
	if b > 1 {
		if rBal(n.left) >= 0 {
			return rRotR(n)
		}
		return rRotR(rInner(n.ki, n.key, rRotL(n.left), n.right))
	}
	if b < -1 {
		if rBal(n.right) <= 0 {
			return rRotL(n)
		}
		return rRotL(rInner(n.ki, n.key, n.left, rRotR(n.right)))
	}
	return n
}

// rSet inserts or updates. Keys are compared through their order index ki (pool key i has
// index 2i, a free key strictly between/outside pool keys an odd index), so the reference
// needs no byte comparison: the order of the keys is what the harness assumed or located.
func rSet(n *rNode, ki int, key, value []byte) (*rNode, bool) {
	if n == nil {
		return rLeaf(ki, key, value), false
	}
	if n.height == 0 {
		if ki == n.ki {
			return rLeaf(ki, key, value), true
		}
		if ki < n.ki {
			return rInner(n.ki, n.key, rLeaf(ki, key, value), n), false
		}
		return rInner(ki, key, n, rLeaf(ki, key, value)), false
	}
	if ki < n.ki {
		l, upd := rSet(n.left, ki, key, value)
		nn := rInner(n.ki, n.key, l, n.right)
		if upd {
			return nn, true
		}
		return rBalance(nn), false
	}
	r, upd := rSet(n.right, ki, key, value)
	nn := rInner(n.ki, n.key, n.left, r)
	if upd {
		return nn, true
	}
	return rBalance(nn), false
}

// rRemove returns (new subtree, routing key handed up (index, bytes; index -1 = none), removed value, removed).
func rRemove(n *rNode, ki int) (*rNode, int, []byte, []byte, bool) {
	if n == nil {
		return nil, -1, nil, nil, false
	}
	if n.height == 0 {
		if ki == n.ki {
			return nil, -1, nil, n.value, true
		}
		return n, -1, nil, nil, false
	}
	if ki < n.ki {
		l, nki, nk, val, removed := rRemove(n.left, ki)
		if !removed {
			return n, -1, nil, nil, false
		}
		if l == nil {
			return n.right, n.ki, n.key, val, true
		}
		return rBalance(rInner(n.ki, n.key, l, n.right)), nki, nk, val, true
	}
	r, nki, nk, val, removed := rRemove(n.right, ki)
	if !removed {
		return n, -1, nil, nil, false
	}
	if r == nil {
		return n.left, -1, nil, val, true
	}
	k, kk := n.ki, n.key
	if nki >= 0 {
		k, kk = nki, nk
	}
	return rBalance(rInner(k, kk, n.left, r)), -1, nil, val, true
}

// rCommit stamps every working node with version v.
func rCommit(n *rNode, v int64) {
	if n == nil || n.version != 0 {
		return
	}
	n.version = v
	rCommit(n.left, v)
	rCommit(n.right, v)
}


// rIsAVL checks the representation invariant of a reference-shaped tree.
func rHeightOK(h int8, n int64) bool {
	// h <= 1.4405*log2(n+2): checked through the exact AVL minimum-size recurrence
	// N(0)=1, N(1)=2, N(h)=N(h-1)+N(h-2)+... for leaf-only AVL+ trees: minimal leaves for height h is Fib-like.
	min := [...]int64{1, 2, 3, 5, 8, 13, 21, 34, 55, 89, 144, 233}
	if int(h) >= len(min) {
		return false
	}
	return n >= min[h]
}

// ---------------------------------------------------------------- audits

type vReader interface {
	Get(key []byte) ([]byte, error)
	Has(key []byte) (bool, error)
	GetWithIndex(key []byte) (int64, []byte, error)
	GetByIndex(index int64) ([]byte, []byte, error)
	Size() int64
	Iterate(fn func(key []byte, value []byte) bool) (bool, error)
}

// vAuditReads compares every read path of t with the model (pool keys and all ranks).
func vAuditReads(t vReader, p *vPool, m *vModel, tag string) {
	n := p.n
	vAssert(t.Size() == int64(m.size(n)), tag+":size")
	for i := 0; i < n; i++ {
		k := p.keys[i]
		v, err := t.Get(k)
		vAssert(err == nil, tag+":get-err")
		has, err := t.Has(k)
		vAssert(err == nil, tag+":has-err")
		idx, v2, err := t.GetWithIndex(k)
		vAssert(err == nil, tag+":getwithindex-err")
		vAssert(idx == int64(m.rankOf(i)), tag+":getwithindex-index")
		if m.present[i] {
			vAssert(v != nil, tag+":get-missing")
			vAssert(vEqBytes(v, m.vals[i]), tag+":get-value")
			vAssert(has, tag+":has-false")
			vAssert(v2 != nil, tag+":getwithindex-missing")
			vAssert(vEqBytes(v2, m.vals[i]), tag+":getwithindex-value")
		} else {
			vAssert(v == nil, tag+":get-phantom")
			vAssert(!has, tag+":has-phantom")
			vAssert(v2 == nil, tag+":getwithindex-phantom")
		}
	}
	sz := m.size(n)
	for r := -1; r <= sz; r++ {
		k, v, err := t.GetByIndex(int64(r))
		i := m.nth(n, r)
		if r >= sz {
			i = -1
		}
		if i < 0 {
			vAssert(k == nil, tag+":getbyindex-out-of-range-key")
			vAssert(v == nil, tag+":getbyindex-out-of-range-value")
			_ = err
		} else {
			vAssert(err == nil, tag+":getbyindex-err")
			vAssert(k != nil, tag+":getbyindex-nil")
			vAssert(vEqBytes(k, p.keys[i]), tag+":getbyindex-key")
			vAssert(vEqBytes(v, m.vals[i]), tag+":getbyindex-value")
		}
	}
	// ordered iteration
	pos := 0
	bad := false
	stopped, err := t.Iterate(func(key, value []byte) bool {
		i := m.nth(n, pos)
		if i < 0 {
			bad = true
			return true
		}
		vAssert(vEqBytes(key, p.keys[i]), tag+":iterate-key")
		vAssert(vEqBytes(value, m.vals[i]), tag+":iterate-value")
		pos++
		return false
	})
	vAssert(err == nil, tag+":iterate-err")
	vAssert(!bad, tag+":iterate-extra")
	vAssert(!stopped, tag+":iterate-stopped")
	vAssert(pos == sz, tag+":iterate-count")
}

// vAuditFreeKey checks lookups of an unconstrained key kq (forks on its position in the pool).
func vAuditFreeKey(t vReader, p *vPool, m *vModel, kq []byte, tag string) {
	rank, eq := p.vLocate(kq)
	v, err := t.Get(kq)
	vAssert(err == nil, tag+":q-get-err")
	has, err := t.Has(kq)
	vAssert(err == nil, tag+":q-has-err")
	idx, v2, err := t.GetWithIndex(kq)
	vAssert(err == nil, tag+":q-getwithindex-err")
	vAssert(idx == int64(m.rankOf(rank)), tag+":q-index")
	if eq && m.present[rank] {
		vAssert(vAnd(v != nil, vEqBytes(v, m.vals[rank])), tag+":q-get-value")
		vAssert(has, tag+":q-has")
		vAssert(vAnd(v2 != nil, vEqBytes(v2, m.vals[rank])), tag+":q-getwithindex-value")
	} else {
		vAssert(v == nil, tag+":q-get-phantom")
		vAssert(!has, tag+":q-has-phantom")
		vAssert(v2 == nil, tag+":q-getwithindex-phantom")
	}
}

var _ = bytes.Compare

func fastnodeNew(key, value []byte, version int64) *fastnode.Node {
	return fastnode.NewNode(key, value, version)
}
