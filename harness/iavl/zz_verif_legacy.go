package iavl

// Reference codec of the legacy (pre-1.0, hash-keyed) on-disk format, used by C16:
//   n<hash:32>                     -> varint(height) varint(size) varint(version) bytes(key) ( bytes(value) | bytes(leftHash) bytes(rightHash) )
//   r<version:8 BE>                -> root hash (empty value for an empty tree)
//   o<toVersion:8><fromVersion:8><hash:32> -> hash      (node created in fromVersion, last part of toVersion)
// node hash = SHA-256( varint(height) varint(size) varint(version) ( bytes(key) bytes(SHA-256(value)) | bytes(leftHash) bytes(rightHash) ) )
// The codec is validated natively against a database written by the checked-in legacy library
// binary cmd/legacydump/legacydump (TestVerifLegacyFormat).

func rLegacyEncode(n *rNode) []byte {
	var b []byte
	b = rVarint(b, int64(n.height))
	b = rVarint(b, n.size)
	b = rVarint(b, n.version)
	b = rBytes(b, n.key)
	if n.height == 0 {
		b = rBytes(b, n.value)
	} else {
		b = rBytes(b, rHash(n.left, 0))
		b = rBytes(b, rHash(n.right, 0))
	}
	return b
}

type rLegacyStored struct {
	ok            bool
	height        int8
	size, version int64
	key, value    []byte
	left, right   []byte
}

func rLegacyDecode(b []byte) (n rLegacyStored) {
	h, p, ok := rReadVarint(b, 0)
	if !ok || h < -128 || h > 127 {
		return
	}
	n.height = int8(h)
	if n.size, p, ok = rReadVarint(b, p); !ok {
		return
	}
	if n.version, p, ok = rReadVarint(b, p); !ok {
		return
	}
	if n.key, p, ok = rReadBytes(b, p); !ok {
		return
	}
	if n.height == 0 {
		if n.value, p, ok = rReadBytes(b, p); !ok {
			return
		}
	} else {
		if n.left, p, ok = rReadBytes(b, p); !ok {
			return
		}
		if n.right, p, ok = rReadBytes(b, p); !ok {
			return
		}
	}
	n.ok = p == len(b)
	return
}

// rLegacyHashOf recomputes the node hash from a decoded legacy record.
func rLegacyHashOf(n rLegacyStored) []byte {
	var b []byte
	b = rVarint(b, int64(n.height))
	b = rVarint(b, n.size)
	b = rVarint(b, n.version)
	if n.height == 0 {
		b = rBytes(b, n.key)
		b = rBytes(b, rSha(n.value))
	} else {
		b = rBytes(b, n.left)
		b = rBytes(b, n.right)
	}
	return rSha(b)
}

func rLegacyNodeKey(hash []byte) []byte { return append([]byte{'n'}, hash...) }

func rBE64(v int64) []byte {
	b := make([]byte, 8)
	for i := 0; i < 8; i++ {
		b[i] = byte(uint64(v) >> (56 - 8*uint(i)))
	}
	return b
}

func rLegacyRootKey(version int64) []byte { return append([]byte{'r'}, rBE64(version)...) }

func rLegacyOrphanKey(to, from int64, hash []byte) []byte {
	k := append([]byte{'o'}, rBE64(to)...)
	k = append(k, rBE64(from)...)
	return append(k, hash...)
}
