package iavl

// C16 Databases in the legacy (pre-1.0) format stay fully usable.
// A legacy store is written by the reference legacy encoder (validated natively against the legacy
// library's own output, TestVerifLegacyFormat); the real code then loads it, reads every legacy
// version, commits new versions on top, prunes across the boundary, rolls back to a legacy version.

var _ = vReg("C16_Legacy", C16_Legacy)

// rCollect appends every node of the tree rooted at r that is not yet in seen.
func rCollect(r *rNode, seen map[*rNode]bool, out []*rNode) []*rNode {
	if r == nil || seen[r] {
		return out
	}
	seen[r] = true
	out = append(out, r)
	if r.height > 0 {
		out = rCollect(r.left, seen, out)
		out = rCollect(r.right, seen, out)
	}
	return out
}

func C16_Legacy() {
	cfg := &vHistCfg{name: "C16_Legacy", nKeys: 2, lenVars: 1, valVars: 1,
		caches: []int{0}, fast: []bool{false}, thresh: []int{0}, auditOld: true, refHash: true}
	maxL := 2
	if vTier() == "thorough" {
		cfg.caches = []int{0, 10000}
		cfg.fast = []bool{false, true}
	}
	h := &vHist{cfg: cfg, db: newVDB(), work: &vModel{}, vers: map[int64]*vModel{}, refRoots: map[int64]*rNode{}, refHash: map[int64][]byte{}, allRoots: map[int64]*rNode{}}
	h.p = vNewPool(cfg.nKeys, vLenVector(cfg.nKeys, 1))
	h.cache = cfg.caches[0]
	if len(cfg.caches) > 1 {
		h.cache = cfg.caches[vChoice("cache", len(cfg.caches))]
	}
	h.fastOn = cfg.fast[0]
	if len(cfg.fast) > 1 {
		h.fastOn = cfg.fast[vChoice("fast", len(cfg.fast))]
	}
	n := h.p.n
	// ---- legacy history (reference only)
	L := int64(1 + vChoice("legacyversions", maxL))
	lset := func(c int) {
		val := vBytes("lv", 1)
		h.work.present[c], h.work.vals[c] = true, val
		h.workRef, _ = rSet(h.workRef, 2*c, h.p.keys[c], val)
	}
	for v := int64(1); v <= L; v++ {
		if v == 1 {
			// version 1: any non-empty subset of the pool, inserted in ascending order
			mask := 1 + vChoice("lmask", (1<<uint(n))-1)
			for c := 0; c < n; c++ {
				if mask&(1<<uint(c)) != 0 {
					lset(c)
				}
			}
		} else {
			// version 2: nothing, one Set or one Remove
			c := vChoice("lwrite", 2*n+1) - 1
			if c >= 0 && c < n {
				lset(c)
			} else if c >= n && h.work.present[c-n] {
				h.work.present[c-n], h.work.vals[c-n] = false, nil
				h.workRef, _, _, _, _ = rRemove(h.workRef, 2*(c-n))
			}
		}
		rCommit(h.workRef, v)
		h.vers[v] = h.work.clone()
		h.refRoots[v] = h.workRef
		h.allRoots[v] = h.workRef
		h.refHash[v] = rHash(h.workRef, v)
	}
	h.first, h.latest = 1, L
	// legacy-side deletion of version 1 (so that its exclusive nodes and orphan records are gone)
	legacyDeleted := L == 2 && vChoice("legacydelete", 2) == 1
	if legacyDeleted {
		delete(h.vers, 1)
		delete(h.refRoots, 1)
		delete(h.refHash, 1)
		h.first = 2
	}
	// ---- write the legacy store with the reference encoder
	seen := map[*rNode]bool{}
	var live []*rNode
	for v := h.first; v <= L; v++ {
		live = rCollect(h.refRoots[v], seen, live)
		if h.refRoots[v] == nil {
			h.db.put(rLegacyRootKey(v), []byte{})
		} else {
			h.db.put(rLegacyRootKey(v), h.refHash[v])
		}
	}
	for _, nd := range live {
		h.db.put(rLegacyNodeKey(rHash(nd, 0)), rLegacyEncode(nd))
	}
	if L == 2 && !legacyDeleted {
		// orphan records: nodes of version 1 that version 2 no longer uses
		in2 := map[*rNode]bool{}
		rCollect(h.refRoots[2], in2, nil)
		in1 := map[*rNode]bool{}
		for _, nd := range rCollect(h.refRoots[1], in1, nil) {
			if !in2[nd] {
				hash := rHash(nd, 0)
				h.db.put(rLegacyOrphanKey(1, nd.version, hash), hash)
				vCover("orphan-record")
			}
		}
	}
	// ---- the real code on top of it
	h.open()
	lv, err := h.tree.Load()
	vAssert(err == nil, "c16:load-err")
	vAssert(lv == L, "c16:load-version")
	h.resetWorkToLatest()
	h.checkVersions("c16:legacy")
	h.audit()
	legacyLatest := L
	f24 := false
	// new-format history on top
	switch vChoice("then", 5) {
	case 0: // commit without writes on a legacy root, then a write
		h.doCommit()
		h.doSet(vChoice("key", n))
		h.doCommit()
	case 1:
		h.doSet(vChoice("key", n))
		h.doCommit()
	case 2:
		h.doRemove(vChoice("key", n))
		h.doCommit()
		h.doSet(vChoice("key2", n))
		h.doCommit()
	case 3: // roll back to a legacy version (only meaningful with two retained legacy versions + new ones)
		if vChoice("nowrite", 2) == 1 {
			// the new version on top is a commit without writes (its root is the re-saved legacy root)
			f24 = true
			h.doCommit()
			vCover("rollback-over-a-commit-without-writes")
		} else {
			h.doSet(vChoice("key", n))
			h.doCommit()
		}
		target := h.first + int64(vChoice("target", int(L-h.first+1)))
		err := h.tree.LoadVersionForOverwriting(target)
		vAssert(err == nil, "c16:loadversionforoverwriting-err")
		for v := target + 1; v <= h.latest; v++ {
			delete(h.vers, v)
			delete(h.refRoots, v)
			delete(h.refHash, v)
		}
		h.latest = target
		if target < legacyLatest {
			legacyLatest = target
		}
		h.resetWorkToLatest()
		h.checkVersions("c16:after-rollback")
		h.audit()
		if vChoice("redo", 2) == 1 {
			h.doSet(vChoice("key2", n))
			h.doCommit()
		} else if f24 {
			// region of finding F24: the rollback ran over a commit without writes on top of the legacy
			// versions and no new version has been committed since
			h.f24 = true
		}
		vCover("rollback-to-legacy")
	case 4: // nothing new
	}
	h.checkVersions("c16:after-new")
	h.audit()
	// pruning below, at and above the boundary
	if h.latest > h.first && vChoice("prune", 2) == 1 {
		// Legacy versions are deleted all at once: a request below the latest legacy version is accepted
		// and (by design) leaves everything in place; at or above it, every version <= n goes.
		span := int(h.latest - h.first + 2)
		pn := h.first - 1 + int64(vChoice("pruneTo", span))
		err := h.tree.DeleteVersionsTo(pn)
		if pn >= h.latest {
			vAssert(err != nil, "c16:prune-latest-rejected")
		} else {
			vAssert(err == nil, "c16:prune-err")
			if pn >= legacyLatest || h.first > legacyLatest {
				for v := h.first; v <= pn; v++ {
					delete(h.vers, v)
					delete(h.refRoots, v)
					delete(h.refHash, v)
				}
				if pn >= h.first {
					h.first = pn + 1
				}
			} else {
				vCover("prune-below-legacy-latest-is-deferred")
			}
		}
		h.checkVersions("c16:after-prune")
		h.audit()
		vCover("pruned")
	}
	if vChoice("reopen", 2) == 1 {
		h.doReopen()
		if h.f24 {
			// inside the region of finding F24 the restart itself is the observation; what the tree
			// answers after a failed or wrong Load() is not examined further
			vCover("legacy-checked")
			return
		}
		h.checkVersions("c16:after-reopen")
		h.audit()
	}
	vCover("legacy-checked")
}
