package iavl

// C03 ICS-23 proofs: complete for every key and bound to key, value and root. The real verifier
// (github.com/cosmos/ics23/go, IavlSpec) is executed symbolically next to the proof producer.

import (
	ics23 "github.com/cosmos/ics23/go"
)

var _ = vReg("C03_ProofShapes", C03_ProofShapes)
var _ = vReg("C03_ProofHistory", C03_ProofHistory)

// c03l labels the two assertions inside the region of finding F22: Set accepts the empty key and an empty
// (non-nil) value, but the standard verifier rejects an existence proof whose key or value is empty, so
// neither the membership proof of such a pair nor a non-membership proof that uses it as a neighbour
// (or that is about the empty key) verifies.
func c03l(empty bool, label string) string {
	if empty {
		return "F22:proof-involving-an-empty-key-or-an-empty-value-does-not-verify"
	}
	return label
}

// c03Check produces and verifies the proof for pool key i in version v of h (it = that version's tree).
func c03Check(h *vHist, it *ImmutableTree, m *vModel, root []byte, i int, tag string) {
	n := h.p.n
	k := h.p.keys[i]
	if m.size(n) == 0 {
		_, err := it.GetProof(k)
		vAssert(err != nil, tag+":proof-on-empty-tree-is-an-error")
		return
	}
	p, err := it.GetProof(k)
	vAssert(err == nil, tag+":getproof-err")
	if m.present[i] {
		vCover("membership")
		vAssert(p.GetExist() != nil, tag+":kind-membership")
		vAssert(vEqBytes(p.GetExist().Key, k), tag+":membership-key")
		vAssert(vEqBytes(p.GetExist().Value, m.vals[i]), tag+":membership-value")
		vAssert(ics23.VerifyMembership(ics23.IavlSpec, root, p, k, m.vals[i]), c03l(len(k) == 0 || len(m.vals[i]) == 0, tag+":membership-verifies"))
		// bound to the value
		other := vBytes("othervalue", 1)
		vAssume(vNot(vEqBytes(other, m.vals[i])))
		vAssert(!ics23.VerifyMembership(ics23.IavlSpec, root, p, k, other), tag+":membership-verifies-for-another-value")
		// bound to the key
		j := (i + 1) % n
		if j != i {
			vAssert(!ics23.VerifyMembership(ics23.IavlSpec, root, p, h.p.keys[j], m.vals[i]), tag+":membership-verifies-for-another-key")
		}
		// not the opposite claim
		vAssert(!ics23.VerifyNonMembership(ics23.IavlSpec, root, p, k), tag+":membership-proof-verifies-as-nonmembership")
		// wrong-kind request
		np, err := it.GetNonMembershipProof(k)
		vAssert(err != nil && np == nil, tag+":nonmembership-proof-of-present-key")
		mp, err := it.GetMembershipProof(k)
		vAssert(err == nil && mp != nil, tag+":getmembershipproof-err")
	} else {
		vCover("nonmembership")
		ne := p.GetNonexist()
		vAssert(ne != nil, tag+":kind-nonmembership")
		vAssert(vEqBytes(ne.Key, k), tag+":nonmembership-key")
		// bracketed by the adjacent keys of the model
		r := m.rankOf(i)
		li, ri := m.nth(n, r-1), m.nth(n, r)
		emptyNeighbour := len(k) == 0 || (li >= 0 && (len(m.vals[li]) == 0 || len(h.p.keys[li]) == 0)) || (ri >= 0 && (len(m.vals[ri]) == 0 || len(h.p.keys[ri]) == 0))
		vAssert(ics23.VerifyNonMembership(ics23.IavlSpec, root, p, k), c03l(emptyNeighbour, tag+":nonmembership-verifies"))
		if li >= 0 {
			vAssert(ne.Left != nil, tag+":left-neighbour-missing")
			vAssert(vEqBytes(ne.Left.Key, h.p.keys[li]), tag+":left-neighbour")
		} else {
			vAssert(ne.Left == nil, tag+":left-neighbour-unexpected")
		}
		if ri >= 0 {
			vAssert(ne.Right != nil, tag+":right-neighbour-missing")
			vAssert(vEqBytes(ne.Right.Key, h.p.keys[ri]), tag+":right-neighbour")
		} else {
			vAssert(ne.Right == nil, tag+":right-neighbour-unexpected")
		}
		// never verifies as a membership claim, nor for a present key
		vAssert(!ics23.VerifyMembership(ics23.IavlSpec, root, p, k, []byte{1}), tag+":nonmembership-proof-verifies-as-membership")
		pj := m.nth(n, 0)
		vAssert(!ics23.VerifyNonMembership(ics23.IavlSpec, root, p, h.p.keys[pj]), tag+":nonmembership-verifies-for-a-present-key")
		mp, err := it.GetMembershipProof(k)
		vAssert(err != nil && mp == nil, tag+":membership-proof-of-absent-key")
	}
}

// C03_ProofShapes: every AVL+ tree up to a height bound, committed (and optionally one more
// version on top so that node versions are inherited); every pool key, present or absent in
// every gap; proofs against the other version's root must not verify when the claim is false there.
func C03_ProofShapes() {
	cfg := &vHistCfg{name: "C03_ProofShapes", lenVars: 1, valVars: 1, caches: []int{0}, fast: []bool{false}, thresh: []int{0}}
	maxH := 2
	if vTier() == "thorough" {
		maxH = 3
		cfg.lenSet = []int{0, 1, 5}
	}
	h := vShapeState(cfg, maxH, 1, []int{1, 2})
	if h.p.n == 0 {
		vStop()
	}
	second := vChoice("second", 3)
	if second > 0 {
		j := vChoice("key2", h.p.n)
		if second == 1 {
			h.doSet(j)
		} else {
			h.doRemove(j)
		}
		h.doCommit()
	}
	i := vChoice("key", h.p.n)
	for v := h.first; v <= h.latest; v++ {
		it, err := h.tree.GetImmutable(v)
		vAssert(err == nil, "c03:getimmutable")
		root := it.Hash()
		vAssert(vEqBytes(root, h.refHash[v]), "c03:root=reference")
		c03Check(h, it, h.vers[v], root, i, "c03")
	}
	// cross-version soundness: a proof of version 1 against the root of version 2 when the claim is false there
	if h.latest > h.first {
		a, b := h.vers[h.first], h.vers[h.latest]
		ita, _ := h.tree.GetImmutable(h.first)
		if a.size(h.p.n) > 0 {
			p, err := ita.GetProof(h.p.keys[i])
			vAssert(err == nil, "c03:cross-getproof")
			rootB := h.refHash[h.latest]
			if a.present[i] && !b.present[i] {
				vAssert(!ics23.VerifyMembership(ics23.IavlSpec, rootB, p, h.p.keys[i], a.vals[i]), "c03:membership-verifies-against-a-version-without-the-key")
				vCover("cross-version")
			}
			if !a.present[i] && b.present[i] {
				vAssert(!ics23.VerifyNonMembership(ics23.IavlSpec, rootB, p, h.p.keys[i]), "c03:nonmembership-verifies-against-a-version-with-the-key")
				vCover("cross-version")
			}
		}
	}
	// working tree (uncommitted write on top)
	if vChoice("working", 2) == 1 {
		h.doSet(vChoice("key3", h.p.n))
		root := h.tree.WorkingHash()
		c03Check(h, h.tree.ImmutableTree, h.work, root, i, "c03-working")
	}
}

// C03_ProofHistory: proofs for every retained version of short histories (sizes 1, 2 and larger).
func C03_ProofHistory() {
	cfg := &vHistCfg{name: "C03_ProofHistory", nKeys: 3, lenVars: 1, valVars: 1, maxOps: 4,
		ops:    []string{"set", "remove", "commit"},
		caches: []int{0}, fast: []bool{false, true}, thresh: []int{0}}
	if vTier() == "thorough" {
		cfg.maxOps = 5
		cfg.valVars = 2
	}
	h := vStartHist(cfg)
	for i := 0; i < cfg.maxOps; i++ {
		if !h.step() {
			break
		}
	}
	if h.latest == 0 {
		vStop()
	}
	i := vChoice("key", h.p.n)
	for v := h.first; v <= h.latest; v++ {
		it, err := h.tree.GetImmutable(v)
		vAssert(err == nil, "c03h:getimmutable")
		c03Check(h, it, h.vers[v], it.Hash(), i, "c03h")
		p, err := h.tree.GetVersionedProof(h.p.keys[i], v)
		if h.vers[v].size(h.p.n) > 0 {
			vAssert(err == nil && p != nil, "c03h:getversionedproof")
		}
	}
}

var _ = vReg("C03_ProofMagnitudes", C03_ProofMagnitudes)

// C03_ProofMagnitudes (T3): the proof encoders (convertLeafOp, convertInnerOps, PathToLeaf) against the real
// verifier for symbolic magnitudes. A two-leaf tree is built in memory with symbolic node versions (every
// varint length up to the bound) and, for membership, a symbolic root size and height; hashes are the
// library's own (Node._hash with each node's version). The proof for either leaf, and the non-membership
// proof of a key between / around them, must verify against the root hash.
func C03_ProofMagnitudes() {
	maxVer := int64(1) << 34
	maxSize := int64(1) << 20
	if vTier() == "thorough" {
		maxVer = int64(1) << 41
	}
	p := vNewPool(3, []int{1, 2, 1})
	vl, vrt, vroot := vInt64("leftversion"), vInt64("rightversion"), vInt64("rootversion")
	vAssume(vl >= 1 && vl < maxVer)
	vAssume(vrt >= 1 && vrt < maxVer)
	vAssume(vroot >= 1 && vroot < maxVer)
	val0, val1 := vBytes("val0", 1), vBytes("val1", 1)
	member := vChoice("kind", 2) == 0
	// leaves hold pool keys 0 and 2; pool key 1 is absent (between them)
	l0 := &Node{key: p.keys[0], value: val0, size: 1, nodeKey: &NodeKey{version: vl, nonce: 2}}
	l1 := &Node{key: p.keys[2], value: val1, size: 1, nodeKey: &NodeKey{version: vrt, nonce: 3}}
	l0._hash(vl)
	l1._hash(vrt)
	root := &Node{key: p.keys[2], subtreeHeight: 1, size: 2, nodeKey: &NodeKey{version: vroot, nonce: 1}, leftNode: l0, rightNode: l1}
	if member {
		// the proof encoders copy height and size into the inner op: any magnitude
		size := vInt64("rootsize")
		vAssume(size >= 2 && size < maxSize)
		root.size = size
		h := vInt8("rootheight")
		vAssume(h >= 1)
		root.subtreeHeight = h
	}
	root._hash(vroot)
	t := &ImmutableTree{root: root, version: vroot, skipFastStorageUpgrade: true, logger: NewNopLogger()}
	rootHash := root.hash
	if member {
		i := 2 * vChoice("leaf", 2)
		val := val0
		if i == 2 {
			val = val1
		}
		pr, err := t.GetMembershipProof(p.keys[i])
		vAssert(err == nil && pr != nil, "c03m:getmembershipproof-err")
		vAssert(ics23.VerifyMembership(ics23.IavlSpec, rootHash, pr, p.keys[i], val), "c03m:membership-verifies")
		other := vBytes("othervalue", 1)
		vAssume(vNot(vEqBytes(other, val)))
		vAssert(!ics23.VerifyMembership(ics23.IavlSpec, rootHash, pr, p.keys[i], other), "c03m:membership-verifies-for-another-value")
		vAssert(!ics23.VerifyMembership(ics23.IavlSpec, rootHash, pr, p.keys[2-i], val), "c03m:membership-verifies-for-another-key")
		vCover("membership")
		return
	}
	pr, err := t.GetNonMembershipProof(p.keys[1])
	vAssert(err == nil && pr != nil, "c03m:getnonmembershipproof-err")
	vAssert(ics23.VerifyNonMembership(ics23.IavlSpec, rootHash, pr, p.keys[1]), "c03m:nonmembership-verifies")
	vAssert(!ics23.VerifyNonMembership(ics23.IavlSpec, rootHash, pr, p.keys[0]), "c03m:nonmembership-verifies-for-a-present-key")
	vCover("nonmembership")
}
