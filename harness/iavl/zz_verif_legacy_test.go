package iavl

import (
	"bytes"
	"os"
	"os/exec"
	"testing"

	dbm "github.com/cosmos/iavl/db"
)

// TestVerifLegacyFormat validates the reference legacy codec (zz_verif_legacy.go) against a database
// written by the legacy library itself (cmd/legacydump/legacydump): every node record decodes,
// re-encodes byte-identically, hashes to its key, children and roots resolve, orphan keys parse.
func TestVerifLegacyFormat(t *testing.T) {
	bin := "./cmd/legacydump/legacydump"
	if b := os.Getenv("VERIF_LEGACYDUMP"); b != "" {
		bin = b
	}
	if _, err := os.Stat(bin); err != nil {
		t.Skip("legacydump binary not present")
	}
	dir, err := os.MkdirTemp("", "verif-legacy-")
	if err != nil {
		t.Fatal(err)
	}
	defer os.RemoveAll(dir)
	for _, mode := range [][]string{{"sequential", "4", "0"}, {"random", "6", "3"}} {
		sub := dir + "/" + mode[0]
		os.MkdirAll(sub, 0o755)
		out, err := exec.Command(bin, "goleveldb", sub, mode[0], mode[1], mode[2]).CombinedOutput()
		if err != nil {
			t.Fatalf("legacydump: %v %s", err, out)
		}
		db, err := dbm.NewGoLevelDB("test", sub)
		if err != nil {
			t.Fatal(err)
		}
		it, err := db.Iterator(nil, nil)
		if err != nil {
			t.Fatal(err)
		}
		nodes := map[string]rLegacyStored{}
		var roots, orphans int
		type rec struct{ k, v []byte }
		var all []rec
		for ; it.Valid(); it.Next() {
			all = append(all, rec{append([]byte{}, it.Key()...), append([]byte{}, it.Value()...)})
		}
		it.Close()
		for _, r := range all {
			switch r.k[0] {
			case 'n':
				if len(r.k) != 33 {
					t.Fatalf("node key length %d", len(r.k))
				}
				n := rLegacyDecode(r.v)
				if !n.ok {
					t.Fatalf("undecodable legacy node %x", r.v)
				}
				if !bytes.Equal(rLegacyHashOf(n), r.k[1:]) {
					t.Fatalf("hash of decoded node != key: %x", r.k)
				}
				// re-encode through the reference encoder
				rn := &rNode{key: n.key, value: n.value, height: n.height, size: n.size, version: n.version}
				if n.height > 0 {
					rn.left = &rNode{hash: n.left}
					rn.right = &rNode{hash: n.right}
				}
				if !bytes.Equal(rLegacyEncode(rn), r.v) {
					t.Fatalf("re-encoding differs for %x", r.k)
				}
				nodes[string(r.k[1:])] = n
			case 'r':
				roots++
			case 'o':
				orphans++
			}
		}
		for _, r := range all {
			switch r.k[0] {
			case 'n':
				n := nodes[string(r.k[1:])]
				if n.height > 0 {
					// children of live nodes are present unless pruned legacy-side (only checked in sequential mode)
					if mode[0] == "sequential" {
						if _, ok := nodes[string(n.left)]; !ok {
							t.Fatalf("left child missing")
						}
						if _, ok := nodes[string(n.right)]; !ok {
							t.Fatalf("right child missing")
						}
					}
				}
			case 'r':
				if !bytes.Equal(r.k, rLegacyRootKey(int64(r.k[8]))) && len(r.k) != 9 {
					t.Fatalf("root key layout %x", r.k)
				}
				if len(r.v) != 0 {
					if _, ok := nodes[string(r.v)]; !ok {
						t.Fatalf("root %x points to a missing node", r.k)
					}
				}
			case 'o':
				if len(r.k) != 1+8+8+32 {
					t.Fatalf("orphan key length %d", len(r.k))
				}
				if !bytes.Equal(r.k[17:], r.v) {
					t.Fatalf("orphan value != hash in key")
				}
				to := int64(r.k[8])
				from := int64(r.k[16])
				if !bytes.Equal(r.k, rLegacyOrphanKey(to, from, r.v)) {
					t.Fatalf("orphan key layout %x", r.k)
				}
				if from > to {
					t.Fatalf("orphan from %d > to %d", from, to)
				}
			}
		}
		if roots == 0 || len(nodes) == 0 {
			t.Fatalf("empty legacy database? roots=%d nodes=%d", roots, len(nodes))
		}
		t.Logf("%s: %d nodes, %d roots, %d orphan records validated", mode[0], len(nodes), roots, orphans)
		db.Close()
	}
}
