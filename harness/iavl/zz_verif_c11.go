package iavl

// C11 Every version is a balanced ordered tree; lookups cost O(height).

var _ = vReg("C11_Steps", C11_Steps)
var _ = vReg("C11_ShapeStep", C11_ShapeStep)

// C11_Steps: every history of Set/Remove/commit over an ordered pool (all insertion orders,
// removals that empty subtrees, interleaved commits); at the end the working tree must be
// isomorphic to the reference AVL+ tree (heights, sizes, routing keys), rank and key lookups
// must be inverse, the AVL height bound must hold, and with nothing cached the number of
// stored nodes read per lookup is bounded by 2h+2.
func C11_Steps() {
	cfg := &vHistCfg{name: "C11_Steps", nKeys: 4, lenVars: 1, valVars: 1, maxOps: 4,
		ops:    []string{"set", "remove", "commit"},
		caches: []int{0}, fast: []bool{false}, thresh: []int{0}, avl: true,
		final: c11Final}
	if vTier() == "thorough" {
		cfg.nKeys = 5
		cfg.maxOps = 5
	}
	vStartHist(cfg).run()
}

// C11_ShapeStep: one Set or Remove with any key (present, absent between/below/above) from
// every AVL+ tree of height <= H in every persistence pattern.
func C11_ShapeStep() {
	cfg := &vHistCfg{name: "C11_ShapeStep", lenVars: 1, valVars: 1, caches: []int{0}, fast: []bool{false}, thresh: []int{0}, avl: true}
	maxH := 3
	if vTier() == "thorough" {
		maxH = 4
	}
	h := vShapeState(cfg, maxH, 1, []int{0, 1, 2})
	if h.p.n > 0 {
		switch vChoice("op", 2) {
		case 0:
			h.doSet(vChoice("key", h.p.n))
		case 1:
			h.doRemove(vChoice("key", h.p.n))
		}
	}
	h.audit()
	c11Final(h)
}

func c11Final(h *vHist) {
	n := h.p.n
	sz := h.work.size(n)
	vAssert(h.tree.Size() == int64(sz), "c11:size")
	if sz > 0 {
		vAssert(rHeightOK(h.tree.Height(), int64(sz)), "c11:avl-height-bound")
	} else {
		vAssert(h.tree.Height() == 0, "c11:empty-height")
	}
	// rank/key inverse on the working tree
	for i := 0; i < n; i++ {
		idx, val, err := h.tree.GetWithIndex(h.p.keys[i])
		vAssert(err == nil, "c11:getwithindex-err")
		if val != nil {
			k2, _, err := h.tree.GetByIndex(idx)
			vAssert(err == nil, "c11:getbyindex-err")
			vAssert(vEqBytes(k2, h.p.keys[i]), "c11:rank-inverse")
		}
	}
	// read counts: commit, reopen with no cache, count storage reads per lookup
	if h.dirty || h.latest == 0 {
		h.doCommit()
	}
	h.cache = 0
	h.fastOn = false
	h.open()
	_, err := h.tree.Load()
	vAssert(err == nil, "c11:reload")
	it, err := h.tree.GetImmutable(h.latest)
	vAssert(err == nil, "c11:getimmutable")
	hgt := int(it.Height())
	vAssert(it.Size() == int64(sz), "c11:committed-size")
	for i := 0; i < n; i++ {
		r0 := h.db.reads
		_, _, err := it.GetWithIndex(h.p.keys[i])
		vAssert(err == nil, "c11:rc-get-err")
		vAssert(h.db.reads-r0 <= 2*hgt+2, "c11:reads-get<=2h+2")
		r0 = h.db.reads
		_, err = it.Has(h.p.keys[i])
		vAssert(err == nil, "c11:rc-has-err")
		vAssert(h.db.reads-r0 <= 2*hgt+2, "c11:reads-has<=2h+2")
	}
	for r := 0; r < sz; r++ {
		r0 := h.db.reads
		k, _, err := it.GetByIndex(int64(r))
		vAssert(err == nil, "c11:rc-getbyindex-err")
		vAssert(k != nil, "c11:rc-getbyindex-nil")
		vAssert(h.db.reads-r0 <= 2*hgt+2, "c11:reads-getbyindex<=2h+2")
	}
	if sz > 0 {
		for i := 0; i < n; i++ {
			r0 := h.db.reads
			_, err := it.GetProof(h.p.keys[i])
			vAssert(err == nil, "c11:rc-proof-err")
			vAssert(h.db.reads-r0 <= 10*hgt+10, "c11:reads-proof<=10h+10")
		}
	}
}

var _ = vReg("C11_DeepCost", C11_DeepCost)

// C11_DeepCost: the read-cost bounds on a tree deep enough for the two coefficients to matter (a cost of
// 12h stays below 10h+10 up to height 5). 33 ordered symbolic one-byte keys inserted in ascending order give
// height 6; committed, reopened with nothing cached; every present key and one absent key in a chosen gap.
func C11_DeepCost() {
	n := 33
	gap := vChoice("gap", n+1) // the absent key lies before key #gap (gap == n: after the last key)
	all := make([][]byte, 0, n+1)
	keys := make([][]byte, n)
	var absent []byte
	for i := 0; i <= n; i++ {
		if i == gap {
			absent = vBytes("absent", 1)
			all = append(all, absent)
		}
		if i < n {
			keys[i] = vBytes("k", 1)
			all = append(all, keys[i])
		}
	}
	vOrdered(all)
	db := newVDB()
	tree := NewMutableTree(db, 0, true, NewNopLogger())
	for i := 0; i < n; i++ {
		_, err := tree.Set(keys[i], []byte{byte(i)})
		vAssert(err == nil, "c11d:set-err")
	}
	_, _, err := tree.SaveVersion()
	vAssert(err == nil, "c11d:save-err")
	t2 := NewMutableTree(db, 0, true, NewNopLogger())
	_, err = t2.Load()
	vAssert(err == nil, "c11d:load-err")
	it, err := t2.GetImmutable(1)
	vAssert(err == nil, "c11d:getimmutable")
	hgt := int(it.Height())
	vAssert(hgt >= 6, "c11d:height-at-least-6")
	vAssert(it.Size() == int64(n), "c11d:size")
	for i := 0; i < n; i++ {
		r0 := db.reads
		idx, val, err := it.GetWithIndex(keys[i])
		vAssert(err == nil && val != nil && idx == int64(i), "c11d:getwithindex")
		vAssert(db.reads-r0 <= 2*hgt+2, "c11d:reads-get<=2h+2")
		r0 = db.reads
		has, err := it.Has(keys[i])
		vAssert(err == nil && has, "c11d:has")
		vAssert(db.reads-r0 <= 2*hgt+2, "c11d:reads-has<=2h+2")
		r0 = db.reads
		k, _, err := it.GetByIndex(int64(i))
		vAssert(err == nil && vConcreteBool(vEqBytes(k, keys[i])), "c11d:getbyindex")
		vAssert(db.reads-r0 <= 2*hgt+2, "c11d:reads-getbyindex<=2h+2")
		r0 = db.reads
		p, err := it.GetProof(keys[i])
		vAssert(err == nil && p != nil && p.GetExist() != nil, "c11d:membership-proof")
		vAssert(db.reads-r0 <= 10*hgt+10, "c11d:reads-membership-proof<=10h+10")
	}
	r0 := db.reads
	idx, val, err := it.GetWithIndex(absent)
	vAssert(err == nil && val == nil && idx == int64(gap), "c11d:absent-rank")
	vAssert(db.reads-r0 <= 2*hgt+2, "c11d:reads-get-absent<=2h+2")
	r0 = db.reads
	has, err := it.Has(absent)
	vAssert(err == nil && !has, "c11d:has-absent")
	vAssert(db.reads-r0 <= 2*hgt+2, "c11d:reads-has-absent<=2h+2")
	r0 = db.reads
	p, err := it.GetProof(absent)
	vAssert(err == nil && p != nil && p.GetNonexist() != nil, "c11d:nonmembership-proof")
	vAssert(db.reads-r0 <= 10*hgt+10, "c11d:reads-nonmembership-proof<=10h+10")
	vCover("deep-tree")
}
