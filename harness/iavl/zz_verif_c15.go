package iavl

// C15 Extracted change sets equal the net writes of each version.

var _ = vReg("C15_Extract", C15_Extract)

type c15pair struct {
	del bool
	i   int
}

// c15Expected: in ascending key order, once per key: keys written in v that are present in v
// (leaf created in v, also when the value is unchanged) and keys of v-1 absent in v.
func c15Expected(h *vHist, v int64, prev *vModel) []c15pair {
	var out []c15pair
	cur := h.vers[v]
	for i := 0; i < h.p.n; i++ {
		if cur.present[i] && rLeafVersion(h.allRoots[v], 2*i) == v {
			out = append(out, c15pair{false, i})
		} else if prev.present[i] && !cur.present[i] {
			out = append(out, c15pair{true, i})
		}
	}
	return out
}

func C15_Extract() {
	cfg := &vHistCfg{name: "C15_Extract", nKeys: 2, lenVars: 1, valVars: 1,
		caches: []int{0}, fast: []bool{false}, thresh: []int{0}, refHash: true}
	maxV, maxW := 2, 2
	if vTier() == "thorough" {
		// the quick profile (V<=2, W<=2) plus deeper histories with one write per version
		if vChoice("profile", 2) == 1 {
			maxV, maxW = 3, 1
		}
		cfg.caches = []int{0, 10000}
	}
	h := vStartHist(cfg)
	// versions with repeated / cancelling writes inside one version, rewrites of identical values,
	// no-op versions and empty versions; remember whether every version was in normal form
	normal := true
	nv := 1 + vChoice("nversions", maxV)
	for v := 0; v < nv; v++ {
		nw := vChoice("nwrites", maxW+1)
		touched := make([]bool, h.p.n)
		for w := 0; w < nw; w++ {
			c := vChoice("write", 3*h.p.n)
			i := c % h.p.n
			if touched[i] {
				normal = false
			}
			touched[i] = true
			switch c / h.p.n {
			case 0:
				h.doSet(i)
			case 1:
				if !h.work.present[i] {
					normal = false // removal of a missing key is a no-op write
				}
				h.doRemove(i)
			case 2: // rewrite of the identical value
				if h.work.present[i] {
					h.doSetValue(i, h.work.vals[i])
				} else {
					h.doSet(i)
				}
			}
		}
		h.doCommit()
	}
	// optional deletion of the oldest versions (then only versions whose predecessor is retained count)
	if h.latest >= 2 && vChoice("prune", 2) == 1 {
		h.doPrune()
	}
	// requested range
	start := int64(vChoice("start", int(h.latest)+1))
	spans := []int64{0, 1, h.latest + 1}
	end := start + spans[vChoice("span", 3)]
	it, err := h.tree.GetImmutable(h.latest)
	vAssert(err == nil, "c15:getimmutable")
	reported := map[int64]bool{}
	var sets []*ChangeSet
	var setVers []int64
	err = it.TraverseStateChanges(start, end, func(version int64, cs *ChangeSet) error {
		reported[version] = true
		sets = append(sets, cs)
		setVers = append(setVers, version)
		vAssert(version >= h.first && version <= h.latest, "c15:reports-a-version-that-is-not-retained")
		vAssert(version >= start, "c15:reports-a-version-before-start")
		if version == h.first && h.first > 1 {
			return nil // predecessor not retained: no claim
		}
		prev := &vModel{}
		if version > 1 && version > h.first {
			prev = h.vers[version-1]
		}
		want := c15Expected(h, version, prev)
		vAssert(len(cs.Pairs) == len(want), "c15:changeset-length")
		for j := 0; j < len(cs.Pairs) && j < len(want); j++ {
			p := cs.Pairs[j]
			vAssert(vEqBytes(p.Key, h.p.keys[want[j].i]), "c15:changeset-key-order")
			vAssert(p.Delete == want[j].del, "c15:changeset-kind")
			if !want[j].del {
				vAssert(vEqBytes(p.Value, h.vers[version].vals[want[j].i]), "c15:changeset-value")
			}
		}
		return nil
	})
	vAssert(err == nil, "c15:traverse-err")
	// every retained version in [start,end) is reported
	for v := h.first; v <= h.latest; v++ {
		if v >= start && v < end {
			vAssert(reported[v], "c15:version-in-range-not-reported")
		}
	}
	// replaying the extracted change sets of the whole history into an empty tree reproduces every
	// version's contents, and its hashes when the writes were in normal form
	if h.first == 1 && start <= 1 && end > h.latest {
		db2 := newVDB()
		t2 := NewMutableTree(db2, 0, true, NewNopLogger())
		for j, cs := range sets {
			ver, err := t2.SaveChangeSet(cs)
			vAssert(err == nil, "c15:savechangeset-err")
			vAssert(ver == setVers[j], "c15:savechangeset-version")
			vAuditReads(t2, h.p, h.vers[ver], "c15:replayed")
			if normal {
				vAssert(vEqBytes(t2.Hash(), h.refHash[ver]), "c15:replayed-hash")
			}
		}
		vCover("replayed")
		// removal of a missing key is rejected
		for i := 0; i < h.p.n; i++ {
			if !h.work.present[i] {
				bad := &ChangeSet{Pairs: []*KVPair{{Delete: true, Key: h.p.keys[i]}}}
				_, err := t2.SaveChangeSet(bad)
				vAssert(err != nil, "c15:removal-of-missing-key-accepted")
				vCover("rejects-missing-removal")
				break
			}
		}
	}
	vCover("extracted")
}
