package iavl

// C01 Versioned key-value semantics: every read matches a versioned-map model.

var _ = vReg("C01_History_Writes", C01_History_Writes)
var _ = vReg("C01_History_Prune", C01_History_Prune)
var _ = vReg("C01_ShapeStep", C01_ShapeStep)

func C01_History_Writes() {
	cfg := &vHistCfg{name: "C01_History_Writes", nKeys: 3, lenVars: 1, valVars: 1, maxOps: 4,
		ops:    []string{"set", "remove", "setnil", "setempty", "commit", "rollback", "reopen"},
		caches: []int{0, 10000}, fast: []bool{true, false}, thresh: []int{0}, auditOld: true}
	if vTier() == "thorough" {
		cfg.maxOps = 5
	}
	vStartHist(cfg).run()
}

var _ = vReg("C01_Backends", C01_Backends)

// C01_Backends: the same answers over the prefix-namespaced backend (prefix ending in 0xFF, foreign
// keys below, inside-looking and above the namespace) as over the plain store.
func C01_Backends() {
	cfg := &vHistCfg{name: "C01_Backends", nKeys: 2, lenVars: 1, valVars: 1, maxOps: 4,
		ops:    []string{"set", "remove", "commit", "prune", "reopen"},
		caches: []int{0}, fast: []bool{true, false}, thresh: []int{0, 101}, auditOld: true, backends: 2}
	if vTier() == "thorough" {
		cfg.maxOps = 5
	}
	vStartHist(cfg).run()
}

// C01_History_Prune: build up to V versions (each with 0..W writes), then DeleteVersionsTo(n)
// for every n, optionally reopen, optionally a second deletion; audit every retained version.
func C01_History_Prune() {
	cfg := &vHistCfg{name: "C01_History_Prune", nKeys: 2, lenVars: 1, valVars: 1,
		caches: []int{0, 10000}, fast: []bool{true, false}, thresh: []int{0, 101}, auditOld: true}
	maxV, maxW := 3, 1
	if vTier() == "thorough" {
		maxV, maxW = 4, 1
	}
	h := vStartHist(cfg)
	h.vBuildVersions(maxV, maxW)
	h.doPrune()
	if vChoice("reopen", 2) == 1 {
		h.doReopen()
	}
	if vChoice("again", 2) == 1 {
		h.doPrune()
	}
	h.audit()
}

// C01_ShapeStep: one Set/Remove from every AVL+ state of height <= H (T2), then audit.
func C01_ShapeStep() {
	cfg := &vHistCfg{name: "C01_ShapeStep", lenVars: 1, valVars: 2, caches: []int{0, 10000}, fast: []bool{false, true}, thresh: []int{0}, auditOld: true}
	maxH := 2
	if vTier() == "thorough" {
		maxH = 3
		cfg.lenVars = 2
	}
	h := vShapeState(cfg, maxH, 1, []int{0, 1, 2})
	if h.p.n > 0 {
		switch vChoice("op", 2) {
		case 0:
			h.doSet(vChoice("key", h.p.n))
		case 1:
			h.doRemove(vChoice("key", h.p.n))
		}
	}
	if vChoice("commit", 2) == 1 {
		h.doCommit()
	}
	h.audit()
}

var _ = vReg("C01_LongKeys", C01_LongKeys)

// C01_LongKeys (thorough tier): short histories with every key-length vector (incl. a 130-byte key whose
// length prefix needs two varint bytes), empty and 131-byte values, cache sizes {0,1,10000}, a tiny
// flush threshold, Set(nil) on every key.
func C01_LongKeys() {
	cfg := &vHistCfg{name: "C01_LongKeys", nKeys: 3, lenVars: 4, valVars: 3, maxOps: 3,
		ops:    []string{"set", "remove", "setnil", "commit", "rollback", "reopen"},
		caches: []int{0, 1, 10000}, fast: []bool{true, false}, thresh: []int{0, 101}, auditOld: true, nilKeys: 3}
	vStartHist(cfg).run()
}

var _ = vReg("C01_LoadOlder", C01_LoadOlder)

// C01_LoadOlder: LoadVersion(v) for every retained v, on a fresh tree object or on the same object —
// optionally with an uncommitted write that the load discards. Every read of the loaded state equals
// version v of the model (also the reads served through the fast index and its uncommitted overlay),
// and so does the state with one more uncommitted write on top.
func C01_LoadOlder() {
	cfg, maxV, maxW := c04cfg("C01_LoadOlder")
	cfg.thresh = []int{0}
	cfg.caches = []int{10000, 0}
	h := vStartHist(cfg)
	h.vBuildVersions(maxV, maxW)
	if h.latest == 0 {
		vStop()
	}
	n := h.p.n
	sameObject := vChoice("same-object", 2) == 1
	if sameObject {
		// a pending write that the load must discard
		if c := vChoice("pending", 2*n+1); c > 0 {
			if c-1 < n {
				h.doSet(c - 1)
			} else {
				h.doRemove(c - 1 - n)
			}
			vCover("load-discards-a-pending-write")
		}
	} else {
		h.open()
	}
	target := h.first + int64(vChoice("target", int(h.latest-h.first+1)))
	lv, err := h.tree.LoadVersion(target)
	vAssert(err == nil, "c01:loadversion-err")
	vAssert(lv == h.latest, "c01:loadversion-returns-latest")
	h.work = h.vers[target].clone()
	h.workRef = h.refRoots[target]
	h.dirty = false
	vAuditReads(h.tree, h.p, h.work, "c01:loaded")
	if target < h.latest {
		vCover("older-version-loaded")
	}
	// one more uncommitted write on top of the loaded version
	if c := vChoice("then", 2*n+1); c > 0 {
		if c-1 < n {
			h.doSet(c - 1)
		} else {
			h.doRemove(c - 1 - n)
		}
		vAuditReads(h.tree, h.p, h.work, "c01:loaded+write")
	}
	// the committed versions are what they were
	for v := h.first; v <= h.latest; v++ {
		it, err := h.tree.GetImmutable(v)
		vAssert(err == nil, "c01:loaded:getimmutable")
		vAuditReads(it, h.p, h.vers[v], "c01:loaded:old")
	}
}
