package iavl

// C01 Versioned key-value semantics: every read matches a versioned-map model.

var _ = vReg("C01_History_Writes", C01_History_Writes)
var _ = vReg("C01_History_Prune", C01_History_Prune)

func C01_History_Writes() {
	cfg := &vHistCfg{name: "C01_History_Writes", nKeys: 3, lenVars: 1, valVars: 2, maxOps: 4,
		ops:    []string{"set", "remove", "setnil", "commit", "rollback", "reopen"},
		caches: []int{0, 10000}, fast: []bool{true, false}, thresh: []int{0}, auditOld: true}
	if vTier() == "thorough" {
		cfg.maxOps = 5
		cfg.lenVars = 4
		cfg.valVars = 3
		cfg.caches = []int{0, 1, 10000}
		cfg.thresh = []int{0, 101}
	}
	vStartHist(cfg).run()
}

func C01_History_Prune() {
	cfg := &vHistCfg{name: "C01_History_Prune", nKeys: 2, lenVars: 1, valVars: 1, maxOps: 5,
		ops:    []string{"set", "remove", "commit", "prune", "reopen"},
		caches: []int{0, 10000}, fast: []bool{true, false}, thresh: []int{0}, auditOld: true}
	if vTier() == "thorough" {
		cfg.maxOps = 6
		cfg.nKeys = 3
	}
	vStartHist(cfg).run()
}
