package iavl

// C01 Versioned key-value semantics: every read matches a versioned-map model.

var _ = vReg("C01_History_Writes", C01_History_Writes)
var _ = vReg("C01_History_Prune", C01_History_Prune)
var _ = vReg("C01_ShapeStep", C01_ShapeStep)

func C01_History_Writes() {
	cfg := &vHistCfg{name: "C01_History_Writes", nKeys: 3, lenVars: 1, valVars: 1, maxOps: 4,
		ops:    []string{"set", "remove", "setnil", "setempty", "commit", "rollback", "reopen"},
		caches: []int{0, 10000}, fast: []bool{true, false}, thresh: []int{0}, auditOld: true}
	if vTier() == "thorough" {
		cfg.maxOps = 5
		cfg.lenVars = 4
		cfg.valVars = 3
		cfg.caches = []int{0, 1, 10000}
		cfg.thresh = []int{0, 101}
		cfg.reopenCfg = true
		cfg.nilKeys = 3
	}
	vStartHist(cfg).run()
}

// C01_History_Prune: build up to V versions (each with 0..W writes), then DeleteVersionsTo(n)
// for every n, optionally reopen, optionally a second deletion; audit every retained version.
func C01_History_Prune() {
	cfg := &vHistCfg{name: "C01_History_Prune", nKeys: 2, lenVars: 1, valVars: 1,
		caches: []int{0, 10000}, fast: []bool{true, false}, thresh: []int{0, 101}, auditOld: true}
	maxV, maxW := 3, 1
	if vTier() == "thorough" {
		maxV, maxW = 4, 2
		cfg.nKeys = 3
	}
	h := vStartHist(cfg)
	h.vBuildVersions(maxV, maxW)
	h.doPrune()
	if vChoice("reopen", 2) == 1 {
		h.doReopen()
	}
	if vChoice("again", 2) == 1 {
		h.doPrune()
	}
	h.audit()
}

// C01_ShapeStep: one Set/Remove from every AVL+ state of height <= H (T2), then audit.
func C01_ShapeStep() {
	cfg := &vHistCfg{name: "C01_ShapeStep", lenVars: 1, valVars: 2, caches: []int{0, 10000}, fast: []bool{false, true}, thresh: []int{0}, auditOld: true}
	maxH := 2
	if vTier() == "thorough" {
		maxH = 3
		cfg.lenVars = 4
	}
	h := vShapeState(cfg, maxH, 1, []int{0, 1, 2})
	if h.p.n > 0 {
		switch vChoice("op", 2) {
		case 0:
			h.doSet(vChoice("key", h.p.n))
		case 1:
			h.doRemove(vChoice("key", h.p.n))
		}
	}
	if vChoice("commit", 2) == 1 {
		h.doCommit()
	}
	h.audit()
}
