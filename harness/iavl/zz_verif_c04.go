package iavl

// C04 Pruning safety; C12 storage = reachable nodes; C14 version bookkeeping.

import (
	ics23 "github.com/cosmos/ics23/go"
)

var _ = vReg("C04_Prune", C04_Prune)
var _ = vReg("C04_PrunePinned", C04_PrunePinned)
var _ = vReg("C12_Audit", C12_Audit)
var _ = vReg("C12_Empty", C12_Empty)
var _ = vReg("C14_History", C14_History)
var _ = vReg("C14_Recommit", C14_Recommit)
var _ = vReg("C14_PruneReopen", C14_PruneReopen)

// C14_PruneReopen: after deleting old versions and restarting, the version range is still exact.
func C14_PruneReopen() {
	cfg, maxV, maxW := c04cfg("C14_PruneReopen")
	cfg.thresh = []int{0}
	cfg.caches = []int{10000}
	cfg.auditOld = false
	h := vStartHist(cfg)
	h.vBuildVersions(maxV, maxW)
	h.doPrune()
	h.checkVersions("after-prune")
	h.doReopen()
	h.checkVersions("after-reopen")
	if vChoice("more", 2) == 1 {
		h.doSet(vChoice("key", h.p.n))
		h.doCommit()
		h.checkVersions("after-reopen-commit")
	}
}

var _ = vReg("C14_Overwrite", C14_Overwrite)

// C14_Overwrite: after a rollback to an earlier version every interface agrees on the shortened range:
// in the same process, after a restart straight afterwards, and after the next commit.
func C14_Overwrite() {
	cfg, maxV, maxW := c04cfg("C14_Overwrite")
	cfg.thresh = []int{0}
	cfg.caches = []int{10000}
	cfg.auditOld = false
	h := vStartHist(cfg)
	h.vBuildVersions(maxV, maxW)
	if h.latest < 2 {
		vStop()
	}
	target := h.first + int64(vChoice("target", int(h.latest-h.first)))
	h.doOverwrite(target, "c14")
	h.checkVersions("after-overwrite")
	if vChoice("commit-first", 2) == 1 {
		h.doSet(vChoice("key", h.p.n))
		h.doCommit()
		h.checkVersions("after-overwrite-commit")
	}
	h.doReopen()
	h.checkVersions("after-overwrite-reopen")
	vAuditReads(h.tree, h.p, h.work, "after-overwrite-reopen")
	vCover("rolled-back")
}

// checkProofs: for every retained version, the proof of one chosen pool key verifies against
// that version's reference root hash.
func (h *vHist) checkProofs(tag string) {
	if h.latest == 0 {
		return
	}
	i := vChoice("proofkey", h.p.n)
	for v := h.first; v <= h.latest; v++ {
		m := h.vers[v]
		if m.size(h.p.n) == 0 {
			continue
		}
		p, err := h.tree.GetVersionedProof(h.p.keys[i], v)
		vAssert(err == nil, tag+":proof-err")
		root := h.refHash[v]
		if m.present[i] {
			vAssert(ics23.VerifyMembership(ics23.IavlSpec, root, p, h.p.keys[i], m.vals[i]), tag+":membership-verifies")
		} else {
			vAssert(ics23.VerifyNonMembership(ics23.IavlSpec, root, p, h.p.keys[i]), tag+":nonmembership-verifies")
		}
	}
}

func c04cfg(name string) (*vHistCfg, int, int) {
	cfg := &vHistCfg{name: name, nKeys: 2, lenVars: 1, valVars: 1,
		caches: []int{0, 10000}, fast: []bool{false, true}, thresh: []int{0, 101}, auditOld: true, refHash: true}
	maxV, maxW := 3, 1
	if vTier() == "thorough" {
		maxV, maxW = 4, 1
		cfg.thresh = []int{0, 101, 250}
	}
	return cfg, maxV, maxW
}

// C04_Prune: versions with and without writes, DeleteVersionsTo(n) for every n (one or many
// versions per call), repeated calls, reopen; after every call and after reopen the deleted
// versions are unavailable and every later version is unchanged in contents, hash and proofs.
func C04_Prune() {
	cfg, maxV, maxW := c04cfg("C04_Prune")
	if vTier() == "thorough" {
		cfg.thresh = []int{0, 101} // (three thresholds with four versions did not finish within 50 minutes)
	}
	h := vStartHist(cfg)
	h.vBuildVersions(maxV, maxW)
	h.doPrune()
	h.checkVersions("after-prune")
	h.audit()
	switch vChoice("then", 4) {
	case 1:
		h.doReopen()
		h.checkVersions("after-reopen")
		h.audit()
		h.checkProofs("after-reopen")
	case 2:
		// more history on top, then prune again
		h.doSet(vChoice("key", h.p.n))
		h.doCommit()
		h.doPrune()
		h.checkVersions("after-second-prune")
		h.audit()
		h.checkProofs("after-second-prune")
	case 3:
		// restart, more history on top, then prune again (the second deletion starts from whatever the
		// reopened store reports as its oldest version)
		h.doReopen()
		h.doSet(vChoice("key", h.p.n))
		h.doCommit()
		h.doPrune()
		h.checkVersions("after-reopen-second-prune")
		h.audit()
		h.checkProofs("after-reopen-second-prune")
	default:
		h.checkProofs("after-prune")
	}
}

// C04_PrunePinned: a version held by an open export cannot be deleted; after Close it can.
func C04_PrunePinned() {
	cfg, maxV, _ := c04cfg("C04_PrunePinned")
	cfg.thresh = []int{0}
	h := vStartHist(cfg)
	h.vBuildVersions(maxV, 1)
	if h.latest < 2 {
		vStop()
	}
	pin := h.first + int64(vChoice("pin", int(h.latest-h.first)))
	it, err := h.tree.GetImmutable(pin)
	vAssert(err == nil, "pin:getimmutable")
	ex, err := it.Export()
	vAssert(err == nil, "pin:export")
	before := len(h.db.keys)
	n := pin + int64(vChoice("n", int(h.latest-pin)))
	err = h.tree.DeleteVersionsTo(n)
	vAssert(err != nil, "pin:delete-of-pinned-version-rejected")
	vAssert(len(h.db.keys) == before, "pin:rejected-delete-has-no-effect")
	h.checkVersions("pin:after-rejected")
	ex.Close()
	err = h.tree.DeleteVersionsTo(n)
	vAssert(err == nil, "pin:delete-after-close")
	for v := h.first; v <= n; v++ {
		delete(h.vers, v)
		delete(h.refRoots, v)
	}
	h.first = n + 1
	h.checkVersions("pin:after-delete")
	h.audit()
	vCover("pinned-delete-rejected")
}

// C12_Audit: after commits, deletions, rollbacks and reopen the stored nodes are exactly those
// reachable from the retained versions.
func C12_Audit() {
	cfg, maxV, maxW := c04cfg("C12_Audit")
	cfg.auditOld = false
	h := vStartHist(cfg)
	h.vBuildVersions(maxV, maxW)
	vAuditStore(h, "after-commits", h.fastOn)
	switch vChoice("then", 5) {
	case 4:
		// rollback to an earlier version (also an empty one), then one more commit
		if h.latest < 2 {
			vStop()
		}
		target := h.first + int64(vChoice("target", int(h.latest-h.first)))
		err := h.tree.LoadVersionForOverwriting(target)
		vAssert(err == nil, "c12:overwrite-err")
		for v := target + 1; v <= h.latest; v++ {
			delete(h.vers, v)
			delete(h.refRoots, v)
			delete(h.refHash, v)
		}
		h.latest = target
		h.resetWorkToLatest()
		vAuditStore(h, "after-overwrite", h.fastOn)
		h.doCommit()
		vAuditStore(h, "after-overwrite-commit", h.fastOn)
	case 0:
		h.doPrune()
		vAuditStore(h, "after-prune", h.fastOn)
		if vChoice("again", 2) == 1 {
			h.doPrune()
			vAuditStore(h, "after-second-prune", h.fastOn)
		}
	case 1:
		// uncommitted writes then rollback: nothing may reach the store
		h.doSet(vChoice("key", h.p.n))
		h.doRollback()
		vAuditStore(h, "after-rollback", h.fastOn)
		h.doCommit()
		vAuditStore(h, "after-rollback-commit", h.fastOn)
	case 2:
		h.doReopen()
		h.doSet(vChoice("key", h.p.n))
		h.doCommit()
		vAuditStore(h, "after-reopen-commit", h.fastOn)
	case 3:
		h.doPrune()
		h.doReopen()
		h.doRemove(vChoice("key", h.p.n))
		h.doCommit()
		vAuditStore(h, "after-prune-reopen-commit", h.fastOn)
	}
	vCover("store-audited")
}

// C12_Empty: once every key has been removed and older versions deleted no node remains.
func C12_Empty() {
	cfg, maxV, maxW := c04cfg("C12_Empty")
	cfg.auditOld = false
	h := vStartHist(cfg)
	h.vBuildVersions(maxV, maxW)
	for i := 0; i < h.p.n; i++ {
		if h.work.present[i] {
			h.doRemove(i)
		}
	}
	h.doCommit()
	err := h.tree.DeleteVersionsTo(h.latest - 1)
	vAssert(err == nil, "empty:prune-err")
	for v := h.first; v < h.latest; v++ {
		delete(h.vers, v)
		delete(h.refRoots, v)
	}
	h.first = h.latest
	ns, nf := 0, 0
	for i := 0; i < len(h.db.keys); i++ {
		switch h.db.keys[i][0] {
		case 's':
			ns++
		case 'f':
			nf++
		}
	}
	vAssert(ns == 1, "empty:only-the-empty-root-marker-remains")
	vAssert(nf == 0, "empty:no-fast-entry-remains")
	vAuditStore(h, "empty", h.fastOn)
	vCover("emptied")
}

// C14_History: version numbering and the available range agree across every query interface
// after every step and after reopening.
func C14_History() {
	cfg := &vHistCfg{name: "C14_History", nKeys: 2, lenVars: 1, valVars: 1, maxOps: 5,
		ops:    []string{"set", "remove", "commit", "prune", "reopen", "rollback"},
		caches: []int{10000}, fast: []bool{false, true}, thresh: []int{0}, initVer: []uint64{0, 5},
		perStep: func(h *vHist) { h.checkVersions("step") }}
	if vTier() == "thorough" {
		cfg.initVer = []uint64{0, 1, 5, 4294967299}
	}
	h := vStartHist(cfg)
	h.checkVersions("start")
	h.run()
}

// C14_Recommit: reopening at an older version and committing: succeeds without effect iff the
// root hash is identical, otherwise fails and leaves the store unchanged.
func C14_Recommit() {
	cfg, maxV, maxW := c04cfg("C14_Recommit")
	cfg.thresh = []int{0}
	h := vStartHist(cfg)
	h.vBuildVersions(maxV, maxW)
	if h.latest < 2 {
		vStop()
	}
	target := h.first + int64(vChoice("target", int(h.latest-h.first)))
	h.open()
	lv, err := h.tree.LoadVersion(target)
	vAssert(err == nil, "recommit:loadversion-err")
	vAssert(lv == h.latest, "recommit:loadversion-returns-latest")
	vAuditReads(h.tree, h.p, h.vers[target], "recommit:loaded")
	// replay the writes of version target+1 or different writes
	same := vChoice("same", 2) == 0
	nextM := h.vers[target+1]
	cur := h.vers[target].clone()
	if same {
		// reproduce exactly the net effect is not enough for hash identity in general; use the
		// no-op case (identical hash iff version target+1 had no writes) and a differing write
		_ = nextM
	} else {
		i := vChoice("key", h.p.n)
		v := vBytes("nv", 1)
		_, err := h.tree.Set(h.p.keys[i], v)
		vAssert(err == nil, "recommit:set")
		cur.present[i] = true
		cur.vals[i] = v
	}
	before := len(h.db.keys)
	wh := h.tree.WorkingHash()
	identical := vConcreteBool(vEqBytes(wh, h.refHash[target+1]))
	hash, ver, err := h.tree.SaveVersion()
	if identical {
		vAssert(err == nil, "recommit:identical-hash-accepted")
		vAssert(ver == target+1, "recommit:version")
		vAssert(vEqBytes(hash, h.refHash[target+1]), "recommit:hash")
		vCover("recommit-identical")
	} else {
		vAssert(err != nil, "recommit:different-hash-rejected")
		vCover("recommit-different")
	}
	vAssert(len(h.db.keys) == before, "recommit:store-unchanged")
	// every version still reads as before
	for v := h.first; v <= h.latest; v++ {
		it, err := h.tree.GetImmutable(v)
		vAssert(err == nil, "recommit:getimmutable")
		vAuditReads(it, h.p, h.vers[v], "recommit:old")
	}
	// after an accepted re-commit the tree stands at that version: discarding (no) changes keeps
	// it there, and when it was the latest the numbering simply continues
	if identical {
		vAssert(h.tree.Version() == target+1, "recommit:tree-version")
		if vChoice("rollback", 2) == 1 {
			h.tree.Rollback()
			vAssert(h.tree.Version() == target+1, "recommit:version-after-rollback")
			vAssert(h.tree.WorkingVersion() == target+2, "recommit:working-version-after-rollback")
		}
		vAuditReads(h.tree, h.p, h.vers[target+1], "recommit:after")
		if target+1 == h.latest {
			h.resetWorkToLatest()
			h.doSet(vChoice("key2", h.p.n))
			h.doCommit()
			h.checkVersions("recommit:continued")
			h.audit()
		}
	}
}

var _ = vReg("C14_LoadOutside", C14_LoadOutside)

// C14_LoadOutside: loading or querying a version outside the range fails (or returns nil for
// GetVersioned) and leaves the tree usable; loading any retained version succeeds.
func C14_LoadOutside() {
	cfg, maxV, maxW := c04cfg("C14_LoadOutside")
	cfg.thresh = []int{0}
	cfg.caches = []int{10000}
	h := vStartHist(cfg)
	h.vBuildVersions(maxV, maxW)
	if h.latest >= 2 && vChoice("prune", 2) == 1 {
		h.doPrune()
	}
	// a version number around the range
	v := h.first - 2 + int64(vChoice("version", int(h.latest-h.first)+5))
	if v < 0 {
		v = h.latest + 3
	}
	in := v >= h.first && v <= h.latest
	if h.f2RegionFor(v) {
		vRegion("F2:deleted-version-still-loadable-because-its-root-node-is-still-live")
	}
	lv, err := h.tree.LoadVersion(v)
	if in {
		vAssert(err == nil, "c14:loadversion-retained-err")
		vAssert(lv == h.latest, "c14:loadversion-returns-latest")
		vAuditReads(h.tree, h.p, h.vers[v], "c14:loaded")
		vCover("loaded-retained")
	} else if v == 0 {
		// LoadVersion(0) means "latest"
		vAssert(err == nil && lv == h.latest, "c14:loadversion-zero-is-latest")
	} else {
		vAssert(err != nil, "c14:loadversion-outside-range-accepted")
		vRegion("")
		// the tree is still usable: it still answers as before and can commit
		h.checkVersions("c14:after-failed-load")
		vAuditReads(h.tree, h.p, h.work, "c14:after-failed-load")
		h.doSet(vChoice("key", h.p.n))
		h.doCommit()
		h.checkVersions("c14:after-failed-load-commit")
		vCover("load-rejected")
	}
	vRegion("")
}
