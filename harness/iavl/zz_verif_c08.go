package iavl

// C08 Iterator contract: exact range, order and termination on every iterator.

import (
	corestore "cosmossdk.io/core/store"
)

var _ = vReg("C08_Iterators", C08_Iterators)

// c08Expected returns the pool indices the model yields for [start,end) (or <= end) in direction asc.
// si/ei are pool indices of the bounds (-1 = nil bound, -2 = empty non-nil bound: as a start it is
// below every key, as an end nothing is below it — and only the empty key, never stored, equals it).
func c08Expected(m *vModel, n, si, ei int, asc, inclusive bool) []int {
	var out []int
	if ei == -2 {
		return out
	}
	for i := 0; i < n; i++ {
		if !m.present[i] {
			continue
		}
		if si >= 0 && i < si {
			continue
		}
		if ei >= 0 && (i > ei || (i == ei && !inclusive)) {
			continue
		}
		out = append(out, i)
	}
	if !asc {
		for a, b := 0, len(out)-1; a < b; a, b = a+1, b-1 {
			out[a], out[b] = out[b], out[a]
		}
	}
	return out
}

func c08Drain(it corestore.Iterator, h *vHist, m *vModel, want []int, tag string) {
	pos := 0
	for ; it.Valid(); it.Next() {
		vAssert(pos < len(want), tag+":extra-element")
		vAssert(vEqBytes(it.Key(), h.p.keys[want[pos]]), tag+":key")
		vAssert(vEqBytes(it.Value(), m.vals[want[pos]]), tag+":value")
		pos++
	}
	vAssert(pos == len(want), tag+":missing-elements")
	vAssert(it.Error() == nil, tag+":error")
	vAssert(!it.Valid(), tag+":invalid-for-good")
	vAssert(!it.Valid(), tag+":invalid-for-good-2")
	it.Close()
	vAssert(!it.Valid(), tag+":invalid-after-close")
}

func C08_Iterators() {
	cfg := &vHistCfg{name: "C08_Iterators", nKeys: 3, lenVars: 1, valVars: 1,
		caches: []int{0}, fast: []bool{true, false}, thresh: []int{0}}
	maxOverlay := 1
	if vTier() == "thorough" {
		cfg.nKeys = 4
	}
	h := vStartHist(cfg)
	n := h.p.n
	// committed state(s): version 1 = chosen subset, optional version 2 = one more write
	mask := vChoice("mask", 1<<uint(n))
	for i := 0; i < n; i++ {
		if mask&(1<<uint(i)) != 0 {
			h.doSet(i)
		}
	}
	h.doCommit()
	if vChoice("v2", 2) == 1 {
		c := vChoice("write", 2*n)
		if c < n {
			h.doSet(c)
		} else {
			h.doRemove(c - n)
		}
		h.doCommit()
	}
	// uncommitted overlay: additions, updates, removals
	no := vChoice("overlay", maxOverlay+1)
	for o := 0; o < no; o++ {
		c := vChoice("owrite", 2*n)
		if c < n {
			h.doSet(c)
		} else {
			h.doRemove(c - n)
		}
	}
	// bounds
	si := vChoice("start", n+2) - 2
	ei := vChoice("end", n+2) - 2
	if ei == -2 && si != -1 && vTier() != "thorough" {
		vStop() // quick tier: the empty end bound is combined with the nil start only
	}
	var start, end []byte
	if si >= 0 {
		start = h.p.keys[si]
	} else if si == -2 {
		start = []byte{}
	}
	if ei >= 0 {
		end = h.p.keys[ei]
	} else if ei == -2 {
		end = []byte{}
	}
	asc := vChoice("asc", 2) == 0
	switch vChoice("kind", 5) {
	case 0: // iterator of the working state (index + uncommitted changes, or tree walk)
		it, err := h.tree.Iterator(start, end, asc)
		vAssert(err == nil, "c08:mutable-iterator-err")
		c08Drain(it, h, h.work, c08Expected(h.work, n, si, ei, asc, false), "c08:working")
		vCover("working-iterator")
	case 1: // latest committed version (persisted-index iterator when the index is on)
		imm, err := h.tree.GetImmutable(h.latest)
		vAssert(err == nil, "c08:getimmutable")
		it, err := imm.Iterator(start, end, asc)
		vAssert(err == nil, "c08:immutable-iterator-err")
		c08Drain(it, h, h.vers[h.latest], c08Expected(h.vers[h.latest], n, si, ei, asc, false), "c08:latest")
		vCover("latest-iterator")
	case 2: // historical version
		imm, err := h.tree.GetImmutable(h.first)
		vAssert(err == nil, "c08:getimmutable-old")
		it, err := imm.Iterator(start, end, asc)
		vAssert(err == nil, "c08:old-iterator-err")
		c08Drain(it, h, h.vers[h.first], c08Expected(h.vers[h.first], n, si, ei, asc, false), "c08:historical")
		vCover("historical-iterator")
	case 3: // tree-walk iterator constructed directly on the working tree
		it := NewIterator(start, end, asc, h.tree.ImmutableTree)
		c08Drain(it, h, h.work, c08Expected(h.work, n, si, ei, asc, false), "c08:treewalk")
		vCover("treewalk-iterator")
	case 4: // callbacks with a stop point
		inclusive := false
		want := c08Expected(h.work, n, si, ei, asc, false)
		stopAt := vChoice("stop", len(want)+1) // == len(want): never stop
		pos := 0
		var stopped bool
		cb := func(key, value []byte) bool {
			vAssert(pos < len(want), "c08:callback-extra")
			vAssert(vEqBytes(key, h.p.keys[want[pos]]), "c08:callback-key")
			vAssert(vEqBytes(value, h.work.vals[want[pos]]), "c08:callback-value")
			pos++
			return pos-1 == stopAt
		}
		cbkind := vChoice("cbkind", 3)
		if cbkind == 0 {
			stopped = h.tree.IterateRange(start, end, asc, cb)
		} else if cbkind == 2 {
			// the inclusive variant on the working state (uncommitted leaves have no node key yet)
			inclusive = true
			want = c08Expected(h.work, n, si, ei, asc, inclusive)
			stopAt = vChoice("stop3", len(want)+1)
			stopped = h.tree.IterateRangeInclusive(start, end, asc, func(key, value []byte, version int64) bool {
				vAssert(pos < len(want), "c08:callback-incl-working-extra")
				vAssert(vEqBytes(key, h.p.keys[want[pos]]), "c08:callback-incl-working-key")
				vAssert(vEqBytes(value, h.work.vals[want[pos]]), "c08:callback-incl-working-value")
				pos++
				return pos-1 == stopAt
			})
		} else {
			// the inclusive variant reports the node version as well: use the committed latest version
			imm, err := h.tree.GetImmutable(h.latest)
			vAssert(err == nil, "c08:getimmutable-incl")
			inclusive = true
			m := h.vers[h.latest]
			want = c08Expected(m, n, si, ei, asc, inclusive)
			stopAt = vChoice("stop2", len(want)+1)
			pos = 0
			stopped = imm.IterateRangeInclusive(start, end, asc, func(key, value []byte, version int64) bool {
				vAssert(pos < len(want), "c08:callback-incl-extra")
				vAssert(vEqBytes(key, h.p.keys[want[pos]]), "c08:callback-incl-key")
				vAssert(vEqBytes(value, m.vals[want[pos]]), "c08:callback-incl-value")
				pos++
				return pos-1 == stopAt
			})
		}
		if stopAt < len(want) {
			vAssert(stopped, "c08:callback-stop-reported")
			vAssert(pos == stopAt+1, "c08:callback-stops-at-element")
		} else {
			vAssert(!stopped, "c08:callback-not-stopped")
			vAssert(pos == len(want), "c08:callback-count")
		}
		vCover("callbacks")
	}
}
