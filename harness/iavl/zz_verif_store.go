package iavl

// Independent reader of the pinned on-disk format (docs/node/node.md, docs/node/nodedb.md):
//   s<version:8 BE><nonce:4 BE> -> node | root reference | empty (empty root)
//   node  = varint(height) varint(size) bytes(key) ( bytes(value) | 0x20 hash varint(mode) children )
//   child = varint(version) varint(nonce)           (mode bit set: 0x20 legacy-hash instead)
//   f<key> -> varint(lastUpdatedVersion) bytes(value)
//   m"storage_version" -> "1.1.0-<latest>" (fast index label)
// Used by the storage audit (C12), the format check (C13) and crash recovery checks (C05).

type rStored struct {
	ok                          bool
	height                      int8
	size                        int64
	key, value, hash            []byte
	lver, lnonce, rver, rnonce  int64
	lLegacy, rLegacy            []byte
	consumed                    int
}

func rReadUvarint(b []byte, pos int) (uint64, int, bool) {
	var x uint64
	var s uint
	for i := 0; i < 10; i++ {
		if pos+i >= len(b) {
			return 0, 0, false
		}
		c := b[pos+i]
		if c < 0x80 {
			if i == 9 && c > 1 {
				return 0, 0, false
			}
			return x | uint64(c)<<s, pos + i + 1, true
		}
		x |= uint64(c&0x7f) << s
		s += 7
	}
	return 0, 0, false
}

func rReadVarint(b []byte, pos int) (int64, int, bool) {
	ux, p, ok := rReadUvarint(b, pos)
	if !ok {
		return 0, 0, false
	}
	x := int64(ux >> 1)
	if ux&1 != 0 {
		x = ^x
	}
	return x, p, true
}

func rReadBytes(b []byte, pos int) ([]byte, int, bool) {
	l, p, ok := rReadUvarint(b, pos)
	if !ok {
		return nil, 0, false
	}
	if l > uint64(len(b)-p) {
		return nil, 0, false
	}
	end := p + int(l)
	out := make([]byte, int(l))
	copy(out, b[p:end])
	return out, end, true
}

// rDecodeNode decodes a stored node value.
func rDecodeNode(b []byte) (n rStored) {
	h, p, ok := rReadVarint(b, 0)
	if !ok || h < -128 || h > 127 {
		return
	}
	n.height = int8(h)
	n.size, p, ok = rReadVarint(b, p)
	if !ok {
		return
	}
	n.key, p, ok = rReadBytes(b, p)
	if !ok {
		return
	}
	if n.height == 0 {
		n.value, p, ok = rReadBytes(b, p)
		if !ok {
			return
		}
		n.ok = true
		n.consumed = p
		return
	}
	n.hash, p, ok = rReadBytes(b, p)
	if !ok || len(n.hash) != 32 {
		return
	}
	mode, p, ok := rReadVarint(b, p)
	if !ok || mode < 0 || mode > 3 {
		return
	}
	if mode&1 != 0 {
		n.lLegacy, p, ok = rReadBytes(b, p)
		if !ok {
			return
		}
	} else {
		n.lver, p, ok = rReadVarint(b, p)
		if !ok {
			return
		}
		n.lnonce, p, ok = rReadVarint(b, p)
		if !ok {
			return
		}
	}
	if mode&2 != 0 {
		n.rLegacy, p, ok = rReadBytes(b, p)
		if !ok {
			return
		}
	} else {
		n.rver, p, ok = rReadVarint(b, p)
		if !ok {
			return
		}
		n.rnonce, p, ok = rReadVarint(b, p)
		if !ok {
			return
		}
	}
	n.ok = true
	n.consumed = p
	return
}

func rNodeDBKey(version int64, nonce int64) []byte {
	k := make([]byte, 13)
	k[0] = 's'
	for i := 0; i < 8; i++ {
		k[1+i] = byte(uint64(version) >> (56 - 8*uint(i)))
	}
	for i := 0; i < 4; i++ {
		k[9+i] = byte(uint32(nonce) >> (24 - 8*uint(i)))
	}
	return k
}

func rKeyVersionNonce(k []byte) (int64, int64) {
	var v uint64
	for i := 0; i < 8; i++ {
		v = v<<8 | uint64(k[1+i])
	}
	var n uint32
	for i := 0; i < 4; i++ {
		n = n<<8 | uint32(k[9+i])
	}
	return int64(v), int64(n)
}

// rawGet reads the store image directly (no fault/crash accounting).
func (d *vDB) rawGet(key []byte) []byte {
	i, ok := d.find(key)
	if !ok {
		return nil
	}
	return d.vals[i]
}

type vStoreAudit struct {
	d       *vDB
	visited map[string]bool
	tag     string
}

// resolveNode fetches the stored node for (version,nonce), applying the documented
// fallback (version,1) -> (version,0) for roots re-keyed by pruning.
func (a *vStoreAudit) resolveNode(ver, nonce int64) ([]byte, []byte) {
	k := rNodeDBKey(ver, nonce)
	v := a.d.rawGet(k)
	if v == nil && nonce == 1 {
		k = rNodeDBKey(ver, 0)
		v = a.d.rawGet(k)
	}
	return k, v
}

// walk compares the stored subtree at (ver,nonce) with the reference subtree r and marks visited keys.
func (a *vStoreAudit) walk(ver, nonce int64, r *rNode) {
	k, buf := a.resolveNode(ver, nonce)
	vAssert(buf != nil, a.tag+":node-missing")
	a.visited[string(k)] = true
	n := rDecodeNode(buf)
	vAssert(n.ok, a.tag+":node-undecodable")
	vAssert(n.consumed == len(buf), a.tag+":node-trailing-bytes")
	vAssert(r != nil, a.tag+":node-unexpected")
	vAssert(n.height == r.height, a.tag+":stored-height")
	vAssert(n.size == r.size, a.tag+":stored-size")
	vAssert(vEqBytes(n.key, r.key), a.tag+":stored-key")
	vAssert(ver == r.version, a.tag+":stored-node-version")
	if r.height == 0 {
		vAssert(vEqBytes(n.value, r.value), a.tag+":stored-value")
		return
	}
	vAssert(vEqBytes(n.hash, rHash(r, 0)), a.tag+":stored-hash")
	vAssert(n.lLegacy == nil && n.rLegacy == nil, a.tag+":unexpected-legacy-child")
	a.walk(n.lver, n.lnonce, r.left)
	a.walk(n.rver, n.rnonce, r.right)
}

// vAuditStore: the stored nodes are exactly those reachable from the retained versions' roots
// (plus their root markers), decode to the reference trees, and the fast index holds exactly
// `fastModel` (nil = no fast entries expected to be checked).
func vAuditStore(h *vHist, tag string, checkFast bool) {
	a := &vStoreAudit{d: h.db, visited: map[string]bool{}, tag: tag}
	for v := h.first; v <= h.latest && v > 0; v++ {
		rk := rNodeDBKey(v, 1)
		val := h.db.rawGet(rk)
		ref := h.refRoots[v]
		if val == nil {
			// re-keyed by pruning: (v,0) holds the root node itself
			rk = rNodeDBKey(v, 0)
			val = h.db.rawGet(rk)
		}
		vAssert(val != nil, tag+":root-marker-missing")
		if len(val) == 0 {
			vAssert(ref == nil, tag+":empty-root-for-nonempty-version")
			a.visited[string(rk)] = true
			continue
		}
		vAssert(ref != nil, tag+":root-for-empty-version")
		if len(val) == 13 && val[0] == 's' {
			// reference root
			a.visited[string(rk)] = true
			rv, rn := rKeyVersionNonce(val)
			a.walk(rv, rn, ref)
			continue
		}
		rv, rn := rKeyVersionNonce(rk)
		a.walk(rv, rn, ref)
	}
	// nothing else under 's'
	nfast := 0
	for i := 0; i < len(h.db.keys); i++ {
		k := h.db.keys[i]
		switch k[0] {
		case 's':
			vAssert(a.visited[string(k)], tag+":unreachable-node-left-behind")
		case 'f':
			nfast++
		}
	}
	if checkFast {
		// the fast index holds exactly the latest version's pairs
		var m *vModel
		if h.latest > 0 {
			m = h.vers[h.latest]
		} else {
			m = &vModel{}
		}
		want := 0
		for i := 0; i < h.p.n; i++ {
			if !m.present[i] {
				continue
			}
			want++
			fk := append([]byte{'f'}, h.p.keys[i]...)
			fv := h.db.rawGet(fk)
			vAssert(fv != nil, tag+":fast-entry-missing")
			_, p, ok := rReadVarint(fv, 0)
			vAssert(ok, tag+":fast-entry-undecodable")
			val, p2, ok := rReadBytes(fv, p)
			vAssert(ok && p2 == len(fv), tag+":fast-entry-undecodable-value")
			vAssert(vEqBytes(val, m.vals[i]), tag+":fast-entry-value")
		}
		vAssert(nfast == want, tag+":fast-entry-count")
	}
}
