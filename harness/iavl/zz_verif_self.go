package iavl

// Smoke / self-test harnesses (property id SELF, not one of the given properties):
// they exercise the executor on the real package and are replayed natively.

var _ = vReg("Self_SetGet", Self_SetGet)

func Self_SetGet() {
	db := newVDB()
	tree := NewMutableTree(db, 0, false, NewNopLogger())
	k1 := vBytes("k1", 1)
	k2 := vBytes("k2", 1)
	v1 := vBytes("v1", 1)
	v2 := vBytes("v2", 1)
	upd, err := tree.Set(k1, v1)
	vAssert(err == nil, "set1-ok")
	vAssert(!upd, "set1-not-updated")
	upd, err = tree.Set(k2, v2)
	vAssert(err == nil, "set2-ok")
	vAssert(upd == vEqBytes(k1, k2), "set2-updated-iff-same-key")
	got, err := tree.Get(k1)
	vAssert(err == nil, "get-ok")
	if vConcreteBool(vEqBytes(k1, k2)) {
		vCover("same-key")
		vAssert(vEqBytes(got, v2), "get-overwritten")
	} else {
		vCover("different-keys")
		vAssert(vEqBytes(got, v1), "get-first")
	}
	h, ver, err := tree.SaveVersion()
	vAssert(err == nil, "save-ok")
	vAssert(ver == 1, "version-1")
	vAssert(len(h) == 32, "hash-len")
	vObserve("size", tree.Size())
	vObserve("got", got)
}

var _ = vReg("Self_Empty", Self_Empty)

func Self_Empty() {
	vObserve("steps", 1)
}

var _ = vReg("Self_GoldenHash", Self_GoldenHash)

// Self_GoldenHash: a fully concrete history executed with real SHA-256 in the executor; every root
// hash, proof verification result and read is observed and compared with the native run (translator
// validation on concrete data: preimage bytes, varints, rotations, storage round trip).
func Self_GoldenHash() {
	db := newVDB()
	tree := NewMutableTree(db, 0, false, NewNopLogger())
	keys := []string{"alpha", "beta", "gamma", "delta", "epsilon", "zeta", "eta", "theta", "iota", "kappa", "a", "ab", "b", "\x00", "\xff\xff"}
	for i, k := range keys {
		tree.Set([]byte(k), []byte{byte(i), byte(i * 7)})
		if i%4 == 3 {
			h, v, err := tree.SaveVersion()
			vAssert(err == nil, "golden:save")
			vObserve("hash", h, v)
		}
	}
	for _, k := range []string{"beta", "a", "theta", "missing"} {
		val, removed, err := tree.Remove([]byte(k))
		vAssert(err == nil, "golden:remove")
		vObserve("remove", val, removed)
	}
	vObserve("working", tree.WorkingHash())
	h, v, err := tree.SaveVersion()
	vAssert(err == nil, "golden:save2")
	vObserve("hash", h, v)
	t2 := NewMutableTree(db, 100, false, NewNopLogger())
	lv, err := t2.Load()
	vAssert(err == nil, "golden:load")
	vObserve("loaded", lv, t2.Hash(), t2.Size(), int(t2.Height()))
	for _, k := range []string{"gamma", "ab", "nothing", "\xff\xff"} {
		idx, val, err := t2.GetWithIndex([]byte(k))
		vAssert(err == nil, "golden:get")
		vObserve("get", idx, val)
		p, err := t2.GetProof([]byte(k))
		vAssert(err == nil, "golden:proof")
		ok, err := t2.VerifyProof(p, []byte(k))
		vAssert(err == nil, "golden:verify")
		vObserve("proof", ok)
	}
	vAssert(t2.DeleteVersionsTo(2) == nil, "golden:prune")
	it, err := t2.GetImmutable(3)
	vAssert(err == nil, "golden:getimmutable")
	vObserve("v3", it.Hash(), it.Size())
	vCover("golden")
}
