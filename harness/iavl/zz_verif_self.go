package iavl

// Smoke / self-test harnesses (property id SELF, not one of the given properties):
// they exercise the executor on the real package and are replayed natively.

var _ = vReg("Self_SetGet", Self_SetGet)

func Self_SetGet() {
	db := newVDB()
	tree := NewMutableTree(db, 0, false, NewNopLogger())
	k1 := vBytes("k1", 1)
	k2 := vBytes("k2", 1)
	v1 := vBytes("v1", 1)
	v2 := vBytes("v2", 1)
	upd, err := tree.Set(k1, v1)
	vAssert(err == nil, "set1-ok")
	vAssert(!upd, "set1-not-updated")
	upd, err = tree.Set(k2, v2)
	vAssert(err == nil, "set2-ok")
	vAssert(upd == vEqBytes(k1, k2), "set2-updated-iff-same-key")
	got, err := tree.Get(k1)
	vAssert(err == nil, "get-ok")
	if vConcreteBool(vEqBytes(k1, k2)) {
		vCover("same-key")
		vAssert(vEqBytes(got, v2), "get-overwritten")
	} else {
		vCover("different-keys")
		vAssert(vEqBytes(got, v1), "get-first")
	}
	h, ver, err := tree.SaveVersion()
	vAssert(err == nil, "save-ok")
	vAssert(ver == 1, "version-1")
	vAssert(len(h) == 32, "hash-len")
	vObserve("size", tree.Size())
	vObserve("got", got)
}

var _ = vReg("Self_Empty", Self_Empty)

func Self_Empty() {
	vObserve("steps", 1)
}
