package iavl

// C02 Root hash is canonical: a pure function of the committed write history.

import (
	"bytes"
)

var _ = vReg("C02_History", C02_History)
var _ = vReg("C02_ShapeStep", C02_ShapeStep)
var _ = vReg("C02_Preimage", C02_Preimage)
var _ = vReg("C02_InitialVersion", C02_InitialVersion)

// doReadonly performs one read-only call chosen symbolically; results are not checked here
// (C01/C03 do that) — C02 asserts that no later hash depends on it.
func (h *vHist) doReadonly() {
	nk := h.cfg.roKeys
	if nk <= 0 {
		nk = 1
	}
	k := h.p.keys[vChoice("rkey", nk)]
	kind := vChoice("readonly", len(h.cfg.roKinds))
	kind = h.cfg.roKinds[kind]
	if kind == 5 && h.iv > 0 && h.latest == 0 && h.tree.root != nil && !h.tree.root.isLeaf() || kind == 5 && h.iv > 0 && h.latest == 0 && h.tree.root != nil && h.tree.root.nodeKey == nil {
		// region of finding F6 (see known_findings.json): a proof query on the never-committed
		// working tree of a tree with InitialVersion set caches node hashes computed with version 1
		h.f6 = true
	}
	switch kind {
	case 0:
		h.tree.Get(k)
	case 1:
		h.tree.Has(k)
	case 2:
		h.tree.Iterate(func(key, value []byte) bool { return false })
	case 3:
		h.tree.WorkingHash()
	case 4:
		h.tree.Hash()
	case 5:
		if h.tree.root != nil {
			h.tree.GetProof(k)
		}
	case 6:
		if h.latest > 0 {
			it, err := h.tree.GetImmutable(h.latest)
			if err == nil {
				it.Get(k)
				it.Hash()
			}
		}
	case 7:
		h.tree.GetWithIndex(k)
		h.tree.GetByIndex(0)
	}
}

func C02_History() {
	cfg := &vHistCfg{name: "C02_History", nKeys: 3, lenVars: 1, valVars: 1, maxOps: 4,
		ops:    []string{"set", "remove", "commit", "rollback", "reopen", "readonly"},
		caches: []int{0}, fast: []bool{true, false}, thresh: []int{0}, auditOld: false, refHash: true, iso: true,
		roKinds: []int{2, 3, 5, 6}}
	if vTier() == "thorough" {
		cfg.maxOps = 5
	}
	h := vStartHist(cfg)
	h.run()
	// every retained version keeps its hash after the whole history (also through GetImmutable)
	for v := h.first; v <= h.latest && v > 0; v++ {
		it, err := h.tree.GetImmutable(v)
		vAssert(err == nil, "c02:getimmutable")
		vAssert(vEqBytes(it.Hash(), h.refHash[v]), "c02:retained-hash=reference")
		vAssert(vEqBytes(h.refHash[v], rHash(h.refRoots[v], v)), "c02:reference-stable")
	}
}

// C02_ShapeStep: after one Set/Remove from every AVL+ state the implementation tree is
// isomorphic to the reference step (keys, heights, sizes, which nodes are new) and hashes agree.
func C02_ShapeStep() {
	cfg := &vHistCfg{name: "C02_ShapeStep", lenVars: 1, valVars: 1, caches: []int{0}, fast: []bool{false}, thresh: []int{0}, refHash: true, iso: true}
	maxH := 3
	if vTier() == "thorough" {
		cfg.lenSet = []int{0, 1, 5}
	}
	h := vShapeState(cfg, maxH, 1, []int{0, 1, 2})
	// a read-only call before the step must not change any later hash (it caches node hashes)
	if h.p.n > 0 {
		switch vChoice("readbefore", 3) {
		case 1:
			h.tree.WorkingHash()
		case 2:
			if h.tree.root != nil {
				h.tree.GetProof(h.p.keys[0])
			}
		}
	}
	if h.p.n > 0 {
		switch vChoice("op", 2) {
		case 0:
			h.doSet(vChoice("key", h.p.n))
		case 1:
			h.doRemove(vChoice("key", h.p.n))
		}
	}
	h.audit()
	h.doCommit()
	vIso(h.tree.ImmutableTree, h.tree.root, h.workRef, "committed-iso")
}

// C02_InitialVersion: with a non-default initial version, read-only calls interleaved before the
// first commit must not change the hash.
func C02_InitialVersion() {
	cfg := &vHistCfg{name: "C02_InitialVersion", nKeys: 2, lenVars: 1, valVars: 1, maxOps: 4,
		ops:    []string{"set", "remove", "commit", "readonly"},
		caches: []int{10000}, fast: []bool{false, true}, thresh: []int{0}, initVer: []uint64{7}, refHash: true,
		roKinds: []int{0, 1, 2, 3, 4, 5, 6, 7}, roKeys: 1}
	if vTier() == "thorough" {
		cfg.initVer = []uint64{7, 1, 4294967299}
	}
	vStartHist(cfg).run()
}

// C02_Preimage (T3): the bytes fed to the hash for a node with symbolic height, size and
// version equal the reference encoding (every varint length).
func C02_Preimage() {
	height := vInt8("height")
	size := vInt64("size")
	version := vInt64("version")
	key := vBytes("key", 2)
	var n *Node
	var want []byte
	want = rVarint(want, int64(height))
	want = rVarint(want, size)
	want = rVarint(want, version)
	if vChoice("leaf", 2) == 0 {
		vAssume(height == 0)
		value := vBytes("value", 1)
		n = &Node{key: key, value: value, subtreeHeight: height, size: size}
		want = rBytes(want, key)
		want = rBytes(want, rSha(value))
	} else {
		vAssume(height != 0)
		lh := vBytes("lh", 32)
		rh := vBytes("rh", 32)
		n = &Node{key: key, subtreeHeight: height, size: size, leftNode: &Node{hash: lh}, rightNode: &Node{hash: rh}}
		want = rBytes(want, lh)
		want = rBytes(want, rh)
	}
	var buf bytes.Buffer
	err := n.writeHashBytes(&buf, version)
	vAssert(err == nil, "preimage:err")
	got := buf.Bytes()
	vAssert(len(got) == len(want), "preimage:length")
	vAssert(vEqBytes(got, want), "preimage:bytes")
	vCover("preimage-checked")
}

var _ = vReg("C02_RollbackRedo", C02_RollbackRedo)

// C02_RollbackRedo: after rolling back to an earlier version and committing different writes, the
// hashes of the redone versions (and of the version after them) are still the canonical ones,
// whatever is left in the node cache from the abandoned versions.
func C02_RollbackRedo() {
	cfg, maxV, maxW := c04cfg("C02_RollbackRedo")
	cfg.thresh = []int{0}
	cfg.caches = []int{10000, 0}
	cfg.fast = []bool{false, true}
	cfg.auditOld = true
	cfg.refHash = true
	cfg.iso = true
	h := vStartHist(cfg)
	h.vBuildVersions(maxV, maxW)
	if h.latest < 2 {
		vStop()
	}
	// a read of the latest version (it pulls nodes of the soon-to-be-abandoned versions into the cache)
	if vChoice("readbefore", 2) == 1 {
		h.tree.GetWithIndex(h.p.keys[vChoice("rkey", h.p.n)])
		h.tree.Iterate(func(k, v []byte) bool { return false })
	}
	target := h.first + int64(vChoice("target", int(h.latest-h.first)))
	err := h.tree.LoadVersionForOverwriting(target)
	vAssert(err == nil, "c02:loadversionforoverwriting-err")
	for v := target + 1; v <= h.latest; v++ {
		delete(h.vers, v)
		delete(h.refRoots, v)
		delete(h.refHash, v)
	}
	h.latest = target
	h.resetWorkToLatest()
	// redo: two more versions with one write each (doCommit compares working and commit hash with the reference)
	for r := 0; r < 2; r++ {
		c := vChoice("redo", 2*h.p.n)
		if c < h.p.n {
			h.doSet(c)
		} else {
			h.doRemove(c - h.p.n)
		}
		h.doCommit()
	}
	h.audit()
	vCover("redone")
}

var _ = vReg("C02_Placements", C02_Placements)

// C02_Placements: the hash of later commits is the canonical one wherever a deletion of old versions,
// an export/import or a reopen is placed in the history.
func C02_Placements() {
	cfg, maxV, maxW := c04cfg("C02_Placements")
	cfg.thresh = []int{0}
	cfg.caches = []int{0}
	cfg.auditOld = true
	cfg.refHash = true
	cfg.iso = false
	h := vStartHist(cfg)
	h.vBuildVersions(maxV, maxW)
	switch vChoice("placement", 3) {
	case 0:
		h.doPrune()
	case 1:
		h.doExportImport()
		vCover("imported")
	case 2:
		h.doReopen()
	}
	for r := 0; r < 2; r++ {
		c := vChoice("then", 2*h.p.n+1)
		if c > 0 {
			if c-1 < h.p.n {
				h.doSet(c - 1)
			} else {
				h.doRemove(c - 1 - h.p.n)
			}
		}
		h.doCommit()
	}
	h.audit()
	if h.fastOn {
		c07Coherent(h, "placements")
		c07Raw(h, "placements")
	}
	vAuditStore(h, "placements", h.fastOn)
	vCover("placed")
}
