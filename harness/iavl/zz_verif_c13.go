package iavl

// C13 On-disk format is stable and every decoder is total (T3: codec kernels over symbolic buffers).

import (
	"bytes"

	"github.com/cosmos/iavl/fastnode"
	"github.com/cosmos/iavl/internal/encoding"
)

var _ = vReg("C13_Total_MakeNode", C13_Total_MakeNode)
var _ = vReg("C13_Total_MakeLegacyNode", C13_Total_MakeLegacyNode)
var _ = vReg("C13_Total_FastNode", C13_Total_FastNode)
var _ = vReg("C13_Total_Varints", C13_Total_Varints)
var _ = vReg("C13_Total_RootRef", C13_Total_RootRef)
var _ = vReg("C13_RoundTrip_Node", C13_RoundTrip_Node)
var _ = vReg("C13_RoundTrip_FastNode", C13_RoundTrip_FastNode)
var _ = vReg("C13_KeyOrder", C13_KeyOrder)
var _ = vReg("C13_ForeignStore", C13_ForeignStore)

func c13buf(tag string) []byte {
	max := 8
	if vTier() == "thorough" {
		max = 10
	}
	n := vChoice(tag+"len", max+1)
	return vBytes(tag, n)
}

// C13_Total_MakeNode: for every buffer MakeNode returns (no panic, bounded allocation), and it
// agrees with the independent decoder of the pinned format.
func C13_Total_MakeNode() {
	buf := c13buf("buf")
	nk := vBytes("nk", 12)
	node, err := MakeNode(nk, buf)
	ref := rDecodeNode(buf)
	if err == nil {
		vAssert(node != nil, "makenode:nil-node-without-error")
		vCover("makenode-accepts")
		if ref.ok {
			vAssert(node.subtreeHeight == ref.height, "makenode:height")
			vAssert(node.size == ref.size, "makenode:size")
			vAssert(vEqBytes(node.key, ref.key), "makenode:key")
			if ref.height == 0 {
				vAssert(vEqBytes(node.value, ref.value), "makenode:value")
			} else {
				vAssert(vEqBytes(node.hash, ref.hash), "makenode:hash")
				if ref.lLegacy == nil {
					vAssert(vEqBytes(node.leftNodeKey, rNodeDBKey(ref.lver, ref.lnonce)[1:]), "makenode:left-child-key")
				}
				if ref.rLegacy == nil {
					vAssert(vEqBytes(node.rightNodeKey, rNodeDBKey(ref.rver, ref.rnonce)[1:]), "makenode:right-child-key")
				}
			}
		}
	} else {
		vCover("makenode-rejects")
		vAssert(node == nil, "makenode:node-with-error")
		if ref.ok {
			// the independent decoder accepts: the only documented extra restriction is the nonce range
			inRange := vAnd(vAnd(ref.lnonce >= 0, ref.lnonce <= 4294967295), vAnd(ref.rnonce >= 0, ref.rnonce <= 4294967295))
			vAssert(vNot(inRange), "makenode:rejects-a-valid-encoding")
		}
	}
}

func C13_Total_MakeLegacyNode() {
	buf := c13buf("buf")
	hash := vBytes("hash", 32)
	node, err := MakeLegacyNode(hash, buf)
	if err == nil {
		vAssert(node != nil, "makelegacynode:nil-node-without-error")
		vCover("legacy-accepts")
	} else {
		vAssert(node == nil, "makelegacynode:node-with-error")
		vCover("legacy-rejects")
	}
}

func C13_Total_FastNode() {
	buf := c13buf("buf")
	key := vBytes("key", 2)
	fn, err := fastnode.DeserializeNode(key, buf)
	ver, p, ok := rReadVarint(buf, 0)
	var val []byte
	ok2 := false
	if ok {
		val, _, ok2 = rReadBytes(buf, p)
	}
	if err == nil {
		vAssert(fn != nil, "fastnode:nil-without-error")
		vAssert(ok && ok2, "fastnode:accepts-what-the-reference-rejects")
		vAssert(fn.GetVersionLastUpdatedAt() == ver, "fastnode:version")
		vAssert(vEqBytes(fn.GetValue(), val), "fastnode:value")
		vAssert(vEqBytes(fn.GetKey(), key), "fastnode:key")
		vCover("fastnode-accepts")
	} else {
		vAssert(!(ok && ok2), "fastnode:rejects-a-valid-encoding")
		vCover("fastnode-rejects")
	}
}

func C13_Total_Varints() {
	buf := c13buf("buf")
	switch vChoice("decoder", 3) {
	case 0:
		u, n, err := encoding.DecodeUvarint(buf)
		ru, rp, ok := rReadUvarint(buf, 0)
		vAssert((err == nil) == ok, "uvarint:accept-agrees")
		if ok {
			vAssert(u == ru, "uvarint:value")
			vAssert(n == rp, "uvarint:length")
		}
		vAssert(n >= 0 && n <= len(buf), "uvarint:consumed-in-range")
	case 1:
		i, n, err := encoding.DecodeVarint(buf)
		ri, rp, ok := rReadVarint(buf, 0)
		vAssert((err == nil) == ok, "varint:accept-agrees")
		if ok {
			vAssert(i == ri, "varint:value")
			vAssert(n == rp, "varint:length")
		}
		vAssert(n >= 0 && n <= len(buf), "varint:consumed-in-range")
	case 2:
		b, n, err := encoding.DecodeBytes(buf)
		rb, rp, ok := rReadBytes(buf, 0)
		vAssert((err == nil) == ok, "bytes:accept-agrees")
		if ok {
			vAssert(vEqBytes(b, rb), "bytes:value")
			vAssert(n == rp, "bytes:length")
		}
		vAssert(n >= 0 && n <= len(buf), "bytes:consumed-in-range")
	}
	vCover("decoders-checked")
}

// C13_Total_RootRef: the root-marker reader returns (no panic) for every stored value.
func C13_Total_RootRef() {
	max := 14
	n := vChoice("len", max+1)
	val := vBytes("val", n)
	db := newVDB()
	db.put(rNodeDBKey(3, 1), val)
	// a plausible target for reference roots
	db.put(rNodeDBKey(2, 1), []byte{0, 2, 1, 'a', 1, 'b'})
	tree := NewMutableTree(db, 0, true, NewNopLogger())
	rk, err := tree.ndb.GetRoot(3)
	if err == nil && rk != nil {
		vAssert(len(rk) == 12 || len(rk) == 32, "rootref:key-length")
	}
	vCover("rootref-checked")
}

// C13_RoundTrip_Node: what writeBytes emits for arbitrary field values is read back identically by
// the independent decoder and by MakeNode; encodedSize is exact.
func C13_RoundTrip_Node() {
	key := vBytes("key", vChoice("keylen", 3))
	// one field ranges over its full type (every varint length), the others over [0,200]
	full := vChoice("fullfield", 5)
	pick := func(i int, tag string) int64 {
		if i == full {
			return vInt64(tag)
		}
		return int64(vIntRange(tag, 0, 200))
	}
	size := pick(0, "size")
	var n *Node
	leaf := vChoice("leaf", 2) == 0
	if leaf {
		val := vBytes("val", vChoice("vallen", 3))
		n = &Node{key: key, value: val, subtreeHeight: 0, size: size}
	} else {
		h := vInt8("height")
		vAssume(h != 0)
		ln, rn := pick(3, "lnonce"), pick(4, "rnonce")
		vAssume(vAnd(ln >= 0, ln <= 4294967295))
		vAssume(vAnd(rn >= 0, rn <= 4294967295))
		lk := &NodeKey{version: pick(1, "lver"), nonce: uint32(ln)}
		rk := &NodeKey{version: pick(2, "rver"), nonce: uint32(rn)}
		n = &Node{key: key, subtreeHeight: h, size: size, hash: vBytes("hash", 32), leftNodeKey: lk.GetKey(), rightNodeKey: rk.GetKey()}
	}
	var buf bytes.Buffer
	err := n.writeBytes(&buf)
	vAssert(err == nil, "roundtrip:write-err")
	out := buf.Bytes()
	ref := rDecodeNode(out)
	vAssert(ref.ok, "roundtrip:reference-decodes")
	vAssert(ref.consumed == len(out), "roundtrip:no-trailing-bytes")
	vAssert(ref.height == n.subtreeHeight, "roundtrip:height")
	vAssert(ref.size == n.size, "roundtrip:size")
	vAssert(vEqBytes(ref.key, n.key), "roundtrip:key")
	nk := (&NodeKey{version: 5, nonce: 1}).GetKey()
	back, err := MakeNode(nk, out)
	vAssert(err == nil, "roundtrip:makenode-err")
	vAssert(back.subtreeHeight == n.subtreeHeight, "roundtrip:makenode-height")
	vAssert(back.size == n.size, "roundtrip:makenode-size")
	vAssert(vEqBytes(back.key, n.key), "roundtrip:makenode-key")
	if leaf {
		vAssert(vEqBytes(ref.value, n.value), "roundtrip:value")
		vAssert(vEqBytes(back.value, n.value), "roundtrip:makenode-value")
	} else {
		vAssert(vEqBytes(ref.hash, n.hash), "roundtrip:hash")
		vAssert(vEqBytes(rNodeDBKey(ref.lver, ref.lnonce)[1:], n.leftNodeKey), "roundtrip:left-child")
		vAssert(vEqBytes(rNodeDBKey(ref.rver, ref.rnonce)[1:], n.rightNodeKey), "roundtrip:right-child")
		vAssert(vEqBytes(back.hash, n.hash), "roundtrip:makenode-hash")
		vAssert(vEqBytes(back.leftNodeKey, n.leftNodeKey), "roundtrip:makenode-left-child")
		vAssert(vEqBytes(back.rightNodeKey, n.rightNodeKey), "roundtrip:makenode-right-child")
	}
	vCover("node-roundtrip")
}

func C13_RoundTrip_FastNode() {
	key := vBytes("key", 2)
	val := vBytes("val", vChoice("vallen", 3))
	ver := vInt64("ver")
	fn := fastnode.NewNode(key, val, ver)
	var buf bytes.Buffer
	err := fn.WriteBytes(&buf)
	vAssert(err == nil, "fastroundtrip:write-err")
	out := buf.Bytes()
	rv, p, ok := rReadVarint(out, 0)
	vAssert(ok, "fastroundtrip:reference-version")
	vAssert(rv == ver, "fastroundtrip:version")
	rb, p2, ok := rReadBytes(out, p)
	vAssert(ok && p2 == len(out), "fastroundtrip:reference-value")
	vAssert(vEqBytes(rb, val), "fastroundtrip:value")
	back, err := fastnode.DeserializeNode(key, out)
	vAssert(err == nil, "fastroundtrip:deserialize-err")
	vAssert(back.GetVersionLastUpdatedAt() == ver, "fastroundtrip:deserialize-version")
	vAssert(vEqBytes(back.GetValue(), val), "fastroundtrip:deserialize-value")
	vCover("fastnode-roundtrip")
}

// C13_KeyOrder: the byte order of storage keys is the numeric order of (version, nonce) for version >= 0.
func C13_KeyOrder() {
	a := &NodeKey{version: vInt64("v1"), nonce: vUint32("n1")}
	b := &NodeKey{version: vInt64("v2"), nonce: vUint32("n2")}
	vAssume(a.version >= 0)
	vAssume(b.version >= 0)
	ka := nodeKeyFormat.Key(a.GetKey())
	kb := nodeKeyFormat.Key(b.GetKey())
	vAssert(len(ka) == 13 && ka[0] == 's', "keyorder:layout")
	less := vOr(a.version < b.version, vAnd(a.version == b.version, a.nonce < b.nonce))
	vAssert(vLessBytes(ka, kb) == less, "keyorder:bytes-order=numeric-order")
	vAssert(vEqBytes(ka, rNodeDBKey(a.version, int64(a.nonce))), "keyorder:reference-key")
	back := GetNodeKey(ka[1:])
	vAssert(back.version == a.version, "keyorder:getnodekey-version")
	vAssert(back.nonce == a.nonce, "keyorder:getnodekey-nonce")
	vCover("keyorder-checked")
}

// C13_ForeignStore: a store written by the independent encoder of the format is opened and read by
// the library with the same contents and hashes.
func C13_ForeignStore() {
	cfg := &vHistCfg{name: "C13_ForeignStore", lenVars: 1, valVars: 1, caches: []int{0}, fast: []bool{false}, thresh: []int{0}}
	maxH := 2
	if vTier() == "thorough" {
		maxH = 3
	}
	h := vShapeState(cfg, maxH, 0, []int{0})
	// discard the library-side tree: write the reference tree with the reference encoder
	db := newVDB()
	nonce := int64(0)
	var write func(r *rNode) (int64, int64)
	write = func(r *rNode) (int64, int64) {
		nonce++
		my := nonce
		var b []byte
		b = rVarint(b, int64(r.height))
		b = rVarint(b, r.size)
		b = rBytes(b, r.key)
		if r.height == 0 {
			b = rBytes(b, r.value)
		} else {
			lv, ln := write(r.left)
			rv, rn := write(r.right)
			b = rBytes(b, rHash(r, 1))
			b = rVarint(b, 0)
			b = rVarint(b, lv)
			b = rVarint(b, ln)
			b = rVarint(b, rv)
			b = rVarint(b, rn)
		}
		db.put(rNodeDBKey(1, my), b)
		return 1, my
	}
	if h.workRef == nil {
		db.put(rNodeDBKey(1, 1), []byte{})
	} else {
		rCommit(h.workRef, 1)
		rHash(h.workRef, 1)
		write(h.workRef)
	}
	tree := NewMutableTree(db, 0, true, NewNopLogger())
	v, err := tree.Load()
	vAssert(err == nil, "foreign:load-err")
	vAssert(v == 1, "foreign:load-version")
	vAuditReads(tree, h.p, h.work, "foreign")
	vAssert(vEqBytes(tree.Hash(), rHash(h.workRef, 1)), "foreign:hash")
	vIso(tree.ImmutableTree, tree.root, h.workRef, "foreign-iso")
	vCover("foreign-store-read")
}
