package iavl

// C05 Crash atomicity: a stop at any write boundary recovers to old or new state.
// The crash point is a variable: vDB drops every physical write with index >= crashAt and
// stops the process (panic vCrash). Recovery = a fresh tree on a copy of the store image.

var _ = vReg("C05_Cut_Commit", C05_Cut_Commit)
var _ = vReg("C05_Cut_Prune", C05_Cut_Prune)
var _ = vReg("C05_Cut_Overwrite", C05_Cut_Overwrite)
var _ = vReg("C05_Cut_IndexBuild", C05_Cut_IndexBuild)
var _ = vReg("C05_Cut_Import", C05_Cut_Import)

func c05cfg(name string) (*vHistCfg, int, int) {
	cfg := &vHistCfg{name: name, nKeys: 2, lenVars: 1, valVars: 1,
		caches: []int{10000}, fast: []bool{true, false}, thresh: []int{101, 250, 0}, refHash: true}
	maxV, maxW := 2, 1
	if vTier() == "thorough" {
		maxV, maxW = 3, 1
		cfg.thresh = []int{101, 150, 250, 0}
	}
	return cfg, maxV, maxW
}

// c05Recover opens a fresh tree on a copy of the store image left by the interrupted operation.
func c05Recover(h *vHist) *vHist {
	r := *h
	r.db = h.db.clone()
	r.open()
	return &r
}

// c05AuditVersions checks contents and hash of versions [lo,hi] through every read path.
func c05AuditVersions(r *vHist, lo, hi int64, tag string) {
	for v := lo; v <= hi && v > 0; v++ {
		it, err := r.tree.GetImmutable(v)
		vAssert(err == nil, tag+":getimmutable")
		if err != nil {
			continue // only reachable inside the region of a recorded finding
		}
		vAuditReads(it, r.p, r.vers[v], tag)
		vAssert(vEqBytes(it.Hash(), r.refHash[v]), tag+":hash")
	}
}

// C05_Cut_Commit: a commit interrupted at every write boundary.
func C05_Cut_Commit() {
	cfg, maxV, maxW := c05cfg("C05_Cut_Commit")
	h := vStartHist(cfg)
	if vChoice("prefix", 2) == 1 {
		h.vBuildVersions(maxV, maxW)
	}
	// writes of the version being committed
	nw := 1 + vChoice("nwrites", 2)
	for w := 0; w < nw; w++ {
		c := vChoice("write", 2*h.p.n)
		if c < h.p.n {
			h.doSet(c)
		} else {
			h.doRemove(c - h.p.n)
		}
	}
	before := h.latest
	beforeFirst := h.first
	after := h.nextVersion()
	afterModel := h.work.clone()
	afterRef := h.workRef
	maxCut := 4
	w0 := h.db.writes
	cut := vChoice("cut", maxCut+1)
	h.db.crashAt = w0 + cut
	crashed := h.db.catchCrash(func() { h.tree.SaveVersion() })
	nWrites := h.db.writes - w0
	if !crashed {
		vCover("commit-not-interrupted")
		vAssert(nWrites <= maxCut, "c05:commit-needs-more-cuts-than-explored")
	}
	r := c05Recover(h)
	lv, err := r.tree.Load()
	if crashed && cut >= 1 && h.thr > 0 {
		// region of finding F3 (needs a flush threshold that splits the commit's batch): a commit cut after at least one of its physical writes reached the store
		// and before the last one (the flushed part holds fast-index entries, the index label and some
		// nodes but not the root)
		vRegion("F3:commit-interrupted-between-its-physical-writes-leaves-a-mixed-state")
		vCover("f3-region")
	}
	vAssert(err == nil, "c05:commit:reopen-load-err")
	if err != nil {
		return
	}
	if lv == after && after != before {
		// new state
		rCommit(afterRef, after)
		r.vers[after] = afterModel
		r.refRoots[after] = afterRef
		r.refHash[after] = rHash(afterRef, after)
		r.latest = after
		if r.first == 0 {
			r.first = after
		}
		vCover("commit-recovered-new")
	} else {
		vAssert(lv == before, "c05:commit:recovered-version-is-neither-old-nor-new")
		r.latest = before
		r.first = beforeFirst
		vCover("commit-recovered-old")
	}
	r.resetWorkToLatest()
	r.auditOldAndWork("c05:commit:recovered")
	// repeating the interrupted operation reaches the crash-free result
	if r.latest == before {
		for i := 0; i < r.p.n; i++ {
			if afterModel.present[i] && (!r.work.present[i] || !vConcreteBool(vEqBytes(afterModel.vals[i], r.work.vals[i])) || rLeafVersion(afterRef, 2*i) == 0 || rLeafVersion(afterRef, 2*i) == after) {
				if !r.work.present[i] || rLeafVersion(afterRef, 2*i) == 0 || rLeafVersion(afterRef, 2*i) == after {
					r.doSetValue(i, afterModel.vals[i])
				}
			} else if !afterModel.present[i] && r.work.present[i] {
				r.doRemove(i)
			}
		}
		_, ver, err := r.tree.SaveVersion()
		vAssert(err == nil, "c05:commit:redo-err")
		vAssert(ver == after, "c05:commit:redo-version")
		it, err := r.tree.GetImmutable(after)
		vAssert(err == nil, "c05:commit:redo-getimmutable")
		vAuditReads(it, r.p, afterModel, "c05:commit:redo")
	}
}

func (h *vHist) auditOldAndWork(tag string) {
	vAuditReads(h.tree, h.p, h.work, tag+":work")
	c05AuditVersions(h, h.first, h.latest, tag+":old")
	c07Coherent(h, tag+":coherent")
}

// C05_Cut_Prune: DeleteVersionsTo interrupted at every write boundary.
func C05_Cut_Prune() {
	cfg, maxV, maxW := c05cfg("C05_Cut_Prune")
	h := vStartHist(cfg)
	h.vBuildVersions(maxV+1, maxW)
	if h.latest < 2 {
		vStop()
	}
	n := h.first + int64(vChoice("pruneTo", int(h.latest-h.first)))
	maxCut := 4
	w0 := h.db.writes
	cut := vChoice("cut", maxCut+1)
	h.db.crashAt = w0 + cut
	crashed := h.db.catchCrash(func() { h.tree.DeleteVersionsTo(n) })
	if !crashed {
		vAssert(h.db.writes-w0 <= maxCut, "c05:prune-needs-more-cuts-than-explored")
		// the deletion only becomes durable with the next commit; nothing to recover from here
		vCover("prune-not-interrupted")
	}
	r := c05Recover(h)
	lv, err := r.tree.Load()
	vAssert(err == nil, "c05:prune:reopen-load-err")
	vAssert(lv == h.latest, "c05:prune:latest-changed")
	r.first = n + 1 // versions <= n are being deleted: only the others are audited
	// every version the operation was not deleting keeps contents and hash
	c05AuditVersions(r, n+1, r.latest, "c05:prune:kept")
	r.resetWorkToLatest()
	vAuditReads(r.tree, r.p, r.work, "c05:prune:work")
	c07Coherent(r, "c05:prune:coherent")
	// repeating the deletion succeeds and the kept versions are still intact afterwards
	err = r.tree.DeleteVersionsTo(n)
	vAssert(err == nil, r.lbl("c05:prune:redo-err"))
	c05AuditVersions(r, n+1, r.latest, "c05:prune:redo-kept")
	// and a further commit on top works
	r.doSet(vChoice("key", r.p.n))
	h2, v2, err := r.tree.SaveVersion()
	vAssert(err == nil && v2 == r.latest+1 && len(h2) == 32, "c05:prune:commit-after-redo")
	vCover("prune-checked")
}

// C05_Cut_Overwrite: LoadVersionForOverwriting interrupted at every write boundary.
func C05_Cut_Overwrite() {
	cfg, maxV, maxW := c05cfg("C05_Cut_Overwrite")
	h := vStartHist(cfg)
	h.vBuildVersions(maxV+1, maxW)
	if h.latest < 2 {
		vStop()
	}
	target := h.first + int64(vChoice("target", int(h.latest-h.first)))
	oldLatest := h.latest
	maxCut := 4
	w0 := h.db.writes
	cut := vChoice("cut", maxCut+1)
	h.db.crashAt = w0 + cut
	crashed := h.db.catchCrash(func() { h.tree.LoadVersionForOverwriting(target) })
	if !crashed {
		vAssert(h.db.writes-w0 <= maxCut, "c05:overwrite-needs-more-cuts-than-explored")
	}
	r := c05Recover(h)
	lv, err := r.tree.Load()
	if crashed && cut >= 1 && h.thr > 0 {
		// region of finding F15 (needs a flush threshold that splits the deletion's batch): the rollback's deletions were split over several physical writes
		vRegion("F15:rollback-to-version-interrupted-between-its-physical-writes-leaves-a-mixed-state")
		vCover("f15-region")
	}
	vAssert(err == nil, "c05:overwrite:reopen-load-err")
	if err != nil {
		return
	}
	vAssert(lv == oldLatest || lv == target, "c05:overwrite:recovered-version-is-neither-old-nor-new")
	r.latest = lv
	c05AuditVersions(r, r.first, lv, "c05:overwrite:kept")
	r.resetWorkToLatest()
	vAuditReads(r.tree, r.p, r.work, "c05:overwrite:work")
	c07Coherent(r, "c05:overwrite:coherent")
	// redo
	err = r.tree.LoadVersionForOverwriting(target)
	vAssert(err == nil, "c05:overwrite:redo-err")
	r.latest = target
	r.resetWorkToLatest()
	l2, _ := r.tree.GetLatestVersion()
	vAssert(l2 == target, "c05:overwrite:redo-latest")
	c05AuditVersions(r, r.first, target, "c05:overwrite:redo-kept")
	vAuditReads(r.tree, r.p, r.work, "c05:overwrite:redo-work")
	vCover("overwrite-checked")
}

// C05_Cut_IndexBuild: first-time fast-index build (open with the index enabled on a store written
// without it) interrupted at every write boundary.
func C05_Cut_IndexBuild() {
	cfg, maxV, maxW := c05cfg("C05_Cut_IndexBuild")
	cfg.fast = []bool{false}
	h := vStartHist(cfg)
	h.vBuildVersions(maxV, maxW)
	h.fastOn = true
	h.open()
	maxCut := 3
	w0 := h.db.writes
	cut := vChoice("cut", maxCut+1)
	h.db.crashAt = w0 + cut
	crashed := h.db.catchCrash(func() { h.tree.Load() })
	if !crashed {
		vAssert(h.db.writes-w0 <= maxCut, "c05:indexbuild-needs-more-cuts-than-explored")
	}
	r := c05Recover(h)
	lv, err := r.tree.Load()
	vAssert(err == nil, "c05:indexbuild:reopen-load-err")
	vAssert(lv == h.latest, "c05:indexbuild:latest")
	r.resetWorkToLatest()
	c05AuditVersions(r, r.first, r.latest, "c05:indexbuild:kept")
	vAuditReads(r.tree, r.p, r.work, "c05:indexbuild:work")
	c07Coherent(r, "c05:indexbuild:coherent")
	c07Raw(r, "c05:indexbuild:raw")
	vCover("indexbuild-checked")
}

// C05_Cut_Import: Importer.Commit interrupted at every write boundary: the imported version is
// either absent (empty database, import can be repeated) or complete.
func C05_Cut_Import() {
	cfg, _, _ := c05cfg("C05_Cut_Import")
	cfg.thresh = []int{0}
	cfg.fast = []bool{false, true}
	src := vShapeState(cfg, 2, 0, []int{1})
	// optionally the exported version was committed without writes (its root is inherited from the
	// version before: the importer writes a reference root), or with one more write
	switch vChoice("second", 3) {
	case 1:
		src.doCommit()
		vCover("import-of-a-version-without-writes")
	case 2:
		if src.p.n > 0 {
			src.doSet(vChoice("key2", src.p.n))
			src.doCommit()
		}
	}
	v := src.latest
	it, err := src.tree.GetImmutable(v)
	vAssert(err == nil, "c05:import:getimmutable")
	var nodes []*ExportNode
	ex, err := it.Export()
	vAssert(err == nil, "c05:import:export")
	for {
		n, err := ex.Next()
		if err != nil {
			break
		}
		nodes = append(nodes, n)
	}
	ex.Close()
	db := newVDB()
	run := func(d *vDB) error {
		t := NewMutableTree(d, 0, !src.fastOn, NewNopLogger())
		imp, err := t.Import(v)
		if err != nil {
			return err
		}
		defer imp.Close()
		for _, n := range nodes {
			c := *n
			if err := imp.Add(&c); err != nil {
				return err
			}
		}
		return imp.Commit()
	}
	maxCut := 3
	cut := vChoice("cut", maxCut+1)
	db.crashAt = cut
	var rerr error
	crashed := db.catchCrash(func() { rerr = run(db) })
	if !crashed {
		vAssert(rerr == nil, "c05:import:err")
		vAssert(db.writes <= maxCut, "c05:import-needs-more-cuts-than-explored")
	}
	img := db.clone()
	t2 := NewMutableTree(img, 0, !src.fastOn, NewNopLogger())
	lv, err := t2.Load()
	vAssert(err == nil, "c05:import:reopen-load-err")
	if lv == 0 {
		// nothing visible: the import can be repeated on the same store
		vAssert(crashed, "c05:import:nothing-visible-after-successful-commit")
		err := run(img)
		vAssert(err == nil, "c05:import:redo-err")
		t2 = NewMutableTree(img, 0, !src.fastOn, NewNopLogger())
		lv, err = t2.Load()
		vAssert(err == nil && lv == v, "c05:import:redo-load")
		vCover("import-recovered-old")
	} else {
		vAssert(lv == v, "c05:import:recovered-version")
		vCover("import-recovered-new")
	}
	vAuditReads(t2, src.p, src.vers[v], "c05:import:contents")
	vAssert(vEqBytes(t2.Hash(), src.refHash[v]), "c05:import:hash")
}
