package iavl

// T1: bounded histories through the public API over vDB, with the versioned-map model
// and the reference IAVL+ running alongside. Which operation comes next, which key it
// touches, which version is pruned are vChoice forks; key/value bytes are solver variables.

import (
	"bytes"

	corestore "cosmossdk.io/core/store"
	dbm "github.com/cosmos/iavl/db"
)

type vHistCfg struct {
	name      string
	nKeys     int
	lenVars   int   // number of key-length vectors (1 = only the alternating 1,2 vector)
	lenSet    []int // explicit key-length vectors to choose from (overrides lenVars); 5 = smallest key empty
	valVars   int   // 1: one-byte values; 2: + empty; 3: + long
	maxOps    int
	ops       []string // alphabet
	caches    []int    // cache sizes to choose from
	fast      []bool   // fast-index settings to choose from (true = enabled)
	thresh    []int    // flush thresholds to choose from; 0 = default; -1 = symbolic
	initVer   []uint64 // InitialVersion options (0 = unset)
	auditOld  bool     // audit every retained version at the end
	refHash   bool     // compare hashes with the reference IAVL+
	iso       bool     // compare the working tree shape with the reference
	avl       bool     // check the AVL+ representation invariant of the working tree
	freeKey   bool     // also query an unconstrained key at the end
	reopenCfg bool     // a reopen independently re-chooses cache size and fast-index setting
	nilKeys   int      // number of pool keys tried by the "setnil" op (default 1)
	roKinds   []int    // kinds of read-only calls tried by the "readonly" op
	roKeys    int      // number of pool keys tried by the "readonly" op (default 1)
	backends  int      // 2: the store is chosen among {vDB, PrefixDB(vDB, prefix ending in 0xFF) with foreign keys around it}
	perStep   func(h *vHist)
	final     func(h *vHist)
}

type vHist struct {
	cfg    *vHistCfg
	db     *vDB
	tree   *MutableTree
	p      *vPool
	cache  int
	fastOn bool
	thr    int
	iv     uint64

	work     *vModel
	vers     map[int64]*vModel
	first    int64 // oldest retained version (0 = none)
	latest   int64 // latest committed version (0 = none)
	workRef  *rNode
	refRoots map[int64]*rNode
	refHash  map[int64][]byte
	nOps     int
	dirty    bool // working tree differs from latest (writes since last commit)
	log      []string
	backend  int
	f6       bool             // inside the region of known finding F6
	f2       bool             // inside the region of known finding F2
	allRoots map[int64]*rNode // reference roots of every version ever committed (incl. deleted)
	reopened bool
	f5       bool // inside the region of known finding F5
	f24      bool // inside the region of known finding F24
}

// lbl returns the label for version-bookkeeping / post-reopen assertions (finding F2 region).
// l24 labels the reopen assertions inside the region of finding F24.
func (h *vHist) l24(label string) string {
	if h.f24 {
		return "F24:new-format-copy-of-a-legacy-root-survives-the-rollback-and-is-taken-for-the-latest-version"
	}
	return label
}

func (h *vHist) lbl(label string) string {
	if h.f24 {
		return "F24:new-format-copy-of-a-legacy-root-survives-the-rollback-and-is-taken-for-the-latest-version"
	}
	if h.f2 {
		return "F2:deleted-version-reappears-after-reopen-because-its-root-node-is-still-live"
	}
	return label
}

func rReach(n, target *rNode) bool {
	if n == nil {
		return false
	}
	if n == target {
		return true
	}
	return rReach(n.left, target) || rReach(n.right, target)
}

// f2Region: some deleted version's root node is still part of a retained version's tree as a
// non-re-keyed node, so its storage key (v,1) is still present and root-key based version
// discovery (after a restart) takes v for an existing version.
func (h *vHist) f2Region() bool {
	for v := range h.allRoots {
		if h.f2RegionFor(v) {
			return true
		}
	}
	return false
}

// f2RegionFor: v is a deleted version whose root node is still stored under (v,1).
func (h *vHist) f2RegionFor(v int64) bool {
	r, ok := h.allRoots[v]
	if !ok || r == nil {
		return false
	}
	if h.first > 0 && v >= h.first {
		return false
	}
	if nx, ok := h.allRoots[v+1]; ok && nx == r {
		return false // re-keyed to (v,0) when v was deleted
	}
	for w := h.first; w <= h.latest && w > 0; w++ {
		if rReach(h.refRoots[w], r) {
			return true
		}
	}
	return false
}

// hl returns the label of a hash assertion: inside the region of finding F6 the label names the finding.
func (h *vHist) hl(label string) string {
	if h.f6 {
		return "F6:hash-after-proof-query-before-first-commit-with-initial-version"
	}
	return label
}

func (h *vHist) opts() []Option {
	var o []Option
	if h.thr > 0 {
		o = append(o, FlushThresholdOption(h.thr))
	}
	if h.iv > 0 {
		o = append(o, InitialVersionOption(h.iv))
	}
	return o
}

var vForeignKeys = [][]byte{{0x01}, {0x01, 0xFE, 0x73}, {0x01, 0xFF}, {0x02}, {0x02, 0x00}}

func (h *vHist) store() corestore.KVStoreWithBatch {
	if h.backend == 1 {
		return dbm.NewPrefixDB(h.db, []byte{0x01, 0xFF})
	}
	return h.db
}

func (h *vHist) open() {
	h.tree = NewMutableTree(h.store(), h.cache, !h.fastOn, NewNopLogger(), h.opts()...)
}

// checkForeign: with the prefix-namespaced backend the keys outside the namespace are never touched.
func (h *vHist) checkForeign() {
	if h.backend != 1 {
		return
	}
	for i, k := range vForeignKeys {
		v := h.db.rawGet(k)
		vAssert(v != nil && len(v) == 1 && v[0] == byte(0xF0+i), "foreign-key-touched")
	}
	for i := 0; i < len(h.db.keys); i++ {
		k := h.db.keys[i]
		foreign := false
		for _, f := range vForeignKeys {
			if bytes.Equal(k, f) {
				foreign = true
			}
		}
		if !foreign {
			vAssert(len(k) > 2 && k[0] == 0x01 && k[1] == 0xFF, "key-written-outside-the-namespace")
		}
	}
}

func vStartHist(cfg *vHistCfg) *vHist {
	h := &vHist{cfg: cfg, db: newVDB(), work: &vModel{}, vers: map[int64]*vModel{}, refRoots: map[int64]*rNode{}, refHash: map[int64][]byte{}}
	h.p = vNewPool(cfg.nKeys, vLenVectorFor(cfg, cfg.nKeys))
	h.cache = cfg.caches[0]
	if len(cfg.caches) > 1 {
		h.cache = cfg.caches[vChoice("cache", len(cfg.caches))]
	}
	h.fastOn = cfg.fast[0]
	if len(cfg.fast) > 1 {
		h.fastOn = cfg.fast[vChoice("fast", len(cfg.fast))]
	}
	t := cfg.thresh[0]
	if len(cfg.thresh) > 1 {
		t = cfg.thresh[vChoice("thresh", len(cfg.thresh))]
	}
	if t < 0 {
		t = vIntRange("flushThreshold", 101, 100000)
	}
	h.thr = t
	if len(cfg.initVer) > 0 {
		h.iv = cfg.initVer[0]
		if len(cfg.initVer) > 1 {
			h.iv = cfg.initVer[vChoice("initver", len(cfg.initVer))]
		}
	}
	if cfg.backends > 1 {
		h.backend = vChoice("backend", cfg.backends)
		if h.backend == 1 {
			for i, k := range vForeignKeys {
				h.db.put(k, []byte{byte(0xF0 + i)})
			}
		}
	}
	h.open()
	v, err := h.tree.Load()
	vAssert(err == nil, "load-empty-ok")
	vAssert(v == 0, "load-empty-version")
	return h
}

func (h *vHist) nextVersion() int64 {
	if h.latest == 0 {
		if h.iv > 0 {
			return int64(h.iv)
		}
		return 1
	}
	return h.latest + 1
}

func (h *vHist) doSet(i int) {
	h.doSetValue(i, vNewValue("v", h.cfg.valVars))
}

func (h *vHist) doSetValue(i int, v []byte) {
	k := h.p.keys[i]
	upd, err := h.tree.Set(k, v)
	vAssert(err == nil, "set-err")
	vAssert(upd == h.work.present[i], "set-updated-flag")
	h.work.present[i] = true
	h.work.vals[i] = v
	h.workRef, _ = rSet(h.workRef, 2*i, k, v)
	h.dirty = true
}

func (h *vHist) doRemove(i int) {
	k := h.p.keys[i]
	val, removed, err := h.tree.Remove(k)
	vAssert(err == nil, "remove-err")
	vAssert(removed == h.work.present[i], "remove-flag")
	if h.work.present[i] {
		vAssert(vEqBytes(val, h.work.vals[i]), "remove-value")
		h.work.present[i] = false
		h.work.vals[i] = nil
		h.workRef, _, _, _, _ = rRemove(h.workRef, 2*i)
		h.dirty = true
	} else {
		vAssert(val == nil, "remove-absent-value")
	}
}

func (h *vHist) doSetNil(i int) {
	upd, err := h.tree.Set(h.p.keys[i], nil)
	vAssert(err != nil, "set-nil-rejected")
	vAssert(!upd, "set-nil-updated")
}

func (h *vHist) doCommit() {
	want := h.nextVersion()
	var wh []byte
	if h.cfg.refHash {
		wh = h.tree.WorkingHash()
		vAssert(vEqBytes(wh, rHash(h.workRef, want)), h.hl("working-hash=reference"))
	}
	hash, ver, err := h.tree.SaveVersion()
	vAssert(err == nil, "commit-err")
	vAssert(ver == want, "commit-version-number")
	rCommit(h.workRef, want)
	if h.cfg.refHash {
		vAssert(vEqBytes(hash, rHash(h.workRef, want)), h.hl("commit-hash=reference"))
		vAssert(vEqBytes(hash, wh), "commit-hash=working-hash")
	}
	h.refRoots[want] = h.workRef
	if h.allRoots == nil {
		h.allRoots = map[int64]*rNode{}
	}
	h.allRoots[want] = h.workRef
	h.refHash[want] = hash
	h.vers[want] = h.work.clone()
	if h.first == 0 {
		h.first = want
	}
	h.latest = want
	h.dirty = false
}

func (h *vHist) doRollback() {
	h.tree.Rollback()
	h.resetWorkToLatest()
}

// doOverwrite rolls back to an earlier retained version (LoadVersionForOverwriting) and updates the model.
func (h *vHist) doOverwrite(target int64, tag string) {
	err := h.tree.LoadVersionForOverwriting(target)
	vAssert(err == nil, tag+":loadversionforoverwriting-err")
	for v := target + 1; v <= h.latest; v++ {
		delete(h.vers, v)
		delete(h.refRoots, v)
		delete(h.refHash, v)
	}
	h.latest = target
	h.resetWorkToLatest()
}

func (h *vHist) resetWorkToLatest() {
	if h.latest == 0 {
		h.work = &vModel{}
		h.workRef = nil
	} else {
		h.work = h.vers[h.latest].clone()
		h.workRef = h.refRoots[h.latest]
	}
	h.dirty = false
}

// doReopen drops the tree object and opens a new one on the same store (a restart).
func (h *vHist) doReopen() {
	if h.cfg.reopenCfg && len(h.cfg.caches) > 1 {
		h.cache = h.cfg.caches[vChoice("cache", len(h.cfg.caches))]
	}
	if h.cfg.reopenCfg && len(h.cfg.fast) > 1 {
		h.fastOn = h.cfg.fast[vChoice("fast", len(h.cfg.fast))]
	}
	h.open()
	h.reopened = true
	if h.f2Region() {
		h.f2 = true
	}
	v, err := h.tree.Load()
	vAssert(err == nil, h.l24("reopen-load-err"))
	vAssert(v == h.latest, h.l24("reopen-load-version"))
	h.resetWorkToLatest()
}

// checkVersions: the available versions are exactly [first, latest] for every query interface.
func (h *vHist) checkVersions(tag string) {
	lv, err := h.tree.GetLatestVersion()
	vAssert(err == nil, tag+":latest-err")
	vAssert(lv == h.latest, h.l24(tag+":latest-version"))
	av := h.tree.AvailableVersions()
	want := 0
	if h.latest > 0 {
		want = int(h.latest - h.first + 1)
	}
	vAssert(len(av) == want, h.lbl(tag+":available-count"))
	for i := 0; i < len(av) && i < want; i++ {
		vAssert(av[i] == int(h.first)+i, h.lbl(tag+":available-list"))
	}
	lo := h.first - 2
	if lo < 0 {
		lo = 0
	}
	for v := lo; v <= h.latest+1; v++ {
		in := h.latest > 0 && v >= h.first && v <= h.latest
		vAssert(h.tree.VersionExists(v) == in, h.lbl(tag+":version-exists"))
		it, err := h.tree.GetImmutable(v)
		if in {
			vAssert(err == nil && it != nil, tag+":getimmutable-retained")
		} else {
			if h.f2RegionFor(v) {
				vAssert(err != nil, "F2:deleted-version-still-loadable-because-its-root-node-is-still-live")
			} else {
				vAssert(err != nil, h.lbl(tag+":getimmutable-outside-range"))
			}
			val, err := h.tree.GetVersioned(h.p.keys[0], v)
			vAssert(err == nil && val == nil, h.lbl(tag+":getversioned-outside-range"))
		}
	}
}

// doPrune calls DeleteVersionsTo(n) for a chosen n in [first-1, latest].
func (h *vHist) doPrune() {
	if h.latest == 0 {
		vStop()
	}
	// n ranges over [first-3, latest] (clipped at 0): stale requests below the oldest retained version
	// (accepted, no effect), every retained version, and the latest (rejected)
	lo := h.first - 3
	if lo < 0 {
		lo = 0
	}
	span := int(h.latest - lo + 1)
	n := lo + int64(vChoice("pruneTo", span))
	err := h.tree.DeleteVersionsTo(n)
	if n >= h.latest {
		vAssert(err != nil, "prune-latest-rejected")
		return
	}
	vAssert(err == nil, h.lbl("prune-err"))
	for v := h.first; v <= n; v++ {
		delete(h.vers, v)
		delete(h.refRoots, v)
		delete(h.refHash, v)
	}
	if n >= h.first {
		h.first = n + 1
	}
}

func (h *vHist) step() bool {
	ops := h.cfg.ops
	c := vChoice("op", len(ops)+1)
	if c == 0 {
		return false
	}
	op := ops[c-1]
	switch op {
	case "set":
		h.doSet(vChoice("key", h.p.n))
	case "remove":
		h.doRemove(vChoice("key", h.p.n))
	case "setnil":
		nk := h.cfg.nilKeys
		if nk <= 0 {
			nk = 1
		}
		h.doSetNil(vChoice("key", nk))
	case "setempty":
		h.doSetValue(vChoice("key", h.p.n), []byte{})
	case "commit":
		h.doCommit()
	case "rollback":
		h.doRollback()
	case "reopen":
		h.doReopen()
	case "prune":
		h.doPrune()
	case "readonly":
		h.doReadonly()
	case "import":
		h.doExportImport()
	default:
		panic("unknown op " + op)
	}
	h.nOps++
	if h.cfg.perStep != nil {
		h.cfg.perStep(h)
	}
	return true
}

func (h *vHist) run() {
	for i := 0; i < h.cfg.maxOps; i++ {
		if !h.step() {
			break
		}
	}
	h.audit()
	if h.cfg.final != nil {
		h.cfg.final(h)
	}
}

func (h *vHist) audit() {
	h.checkForeign()
	vAuditReads(h.tree, h.p, h.work, "work")
	if h.cfg.iso {
		vIso(h.tree.ImmutableTree, h.tree.root, h.workRef, "work-iso")
	}
	if h.cfg.avl && h.tree.root != nil {
		vCheckAVL(h.tree.ImmutableTree, h.tree.root, "avl")
	}
	if h.cfg.refHash {
		vAssert(vEqBytes(h.tree.WorkingHash(), rHash(h.workRef, h.nextVersion())), h.hl("final-working-hash=reference"))
		if h.latest > 0 {
			vAssert(vEqBytes(h.tree.Hash(), h.refHash[h.latest]), h.hl("last-saved-hash"))
		}
	}
	if h.cfg.auditOld {
		for v := h.first; v <= h.latest && v > 0; v++ {
			it, err := h.tree.GetImmutable(v)
			vAssert(err == nil, "getimmutable-err")
			vAuditReads(it, h.p, h.vers[v], "old")
			if h.cfg.refHash {
				vAssert(vEqBytes(it.Hash(), h.refHash[v]), h.hl("old-hash"))
			}
			for i := 0; i < h.p.n; i++ {
				val, err := h.tree.GetVersioned(h.p.keys[i], v)
				vAssert(err == nil, "getversioned-err")
				if h.vers[v].present[i] {
					vAssert(vAnd(val != nil, vEqBytes(val, h.vers[v].vals[i])), "getversioned-value")
				} else {
					vAssert(val == nil, "getversioned-phantom")
				}
			}
		}
	}
}

// vIso checks that the implementation subtree at node is isomorphic to the reference subtree r:
// same routing keys, heights, sizes, leaf values and node versions, and that it is a valid AVL+ tree.
func vIso(t *ImmutableTree, node *Node, r *rNode, tag string) {
	if r == nil {
		vAssert(node == nil, tag+":nil")
		return
	}
	vAssert(node != nil, tag+":missing")
	vAssert(node.subtreeHeight == r.height, tag+":height")
	vAssert(node.size == r.size, tag+":size")
	vAssert(vEqBytes(node.key, r.key), tag+":key")
	if r.version != 0 {
		vAssert(node.nodeKey != nil, tag+":persisted")
		vAssert(node.nodeKey.version == r.version, tag+":version")
	} else {
		vAssert(node.nodeKey == nil, tag+":new")
	}
	if r.height == 0 {
		vAssert(vEqBytes(node.value, r.value), tag+":value")
		vAssert(node.leftNode == nil && node.rightNode == nil && node.leftNodeKey == nil && node.rightNodeKey == nil, tag+":leaf-children")
		return
	}
	d := int(r.left.height) - int(r.right.height)
	vAssert(d >= -1 && d <= 1, tag+":ref-balance")
	l, err := node.getLeftNode(t)
	vAssert(err == nil, tag+":left-err")
	rr, err := node.getRightNode(t)
	vAssert(err == nil, tag+":right-err")
	vIso(t, l, r.left, tag)
	vIso(t, rr, r.right, tag)
}

var _ = bytes.Equal

// vCheckAVL verifies the AVL+ representation invariant of the implementation subtree:
// exact height and size fields, balance factor in {-1,0,1}, routing key = smallest key of
// the right subtree. It returns the smallest key of the subtree.
func vCheckAVL(t *ImmutableTree, node *Node, tag string) (min []byte) {
	if node.subtreeHeight == 0 {
		vAssert(node.size == 1, tag+":leaf-size")
		vAssert(node.value != nil, tag+":leaf-value")
		return node.key
	}
	l, err := node.getLeftNode(t)
	vAssert(err == nil && l != nil, tag+":left")
	r, err := node.getRightNode(t)
	vAssert(err == nil && r != nil, tag+":right")
	lmin := vCheckAVL(t, l, tag)
	rmin := vCheckAVL(t, r, tag)
	hh := l.subtreeHeight
	if r.subtreeHeight > hh {
		hh = r.subtreeHeight
	}
	vAssert(node.subtreeHeight == hh+1, tag+":height-field")
	vAssert(node.size == l.size+r.size, tag+":size-field")
	d := int(l.subtreeHeight) - int(r.subtreeHeight)
	vAssert(d >= -1 && d <= 1, tag+":balance")
	vAssert(vEqBytes(node.key, rmin), tag+":routing-key=min-of-right")
	return lmin
}

// vBuildVersions commits up to maxV versions; each version applies up to maxW writes chosen
// among Set(any pool key) / Remove(any pool key). Every combination is explored.
func (h *vHist) vBuildVersions(maxV, maxW int) {
	nv := 1 + vChoice("nversions", maxV)
	for v := 0; v < nv; v++ {
		nw := vChoice("nwrites", maxW+1)
		for w := 0; w < nw; w++ {
			c := vChoice("write", 2*h.p.n)
			if c < h.p.n {
				h.doSet(c)
			} else {
				h.doRemove(c - h.p.n)
			}
		}
		h.doCommit()
	}
}

// doExportImport exports the latest version and imports it into an empty store; the history then
// continues on the imported tree (only the imported version is retained there).
func (h *vHist) doExportImport() {
	if h.latest == 0 || h.dirty {
		vStop()
	}
	it, err := h.tree.GetImmutable(h.latest)
	vAssert(err == nil, "import:getimmutable")
	ex, err := it.Export()
	vAssert(err == nil, "import:export")
	db2 := newVDB()
	old := h.db
	h.db = db2
	h.backend = 0
	h.open()
	imp, err := h.tree.Import(h.latest)
	vAssert(err == nil, "import:import")
	for {
		n, err := ex.Next()
		if err != nil {
			break
		}
		vAssert(imp.Add(n) == nil, "import:add")
	}
	ex.Close()
	vAssert(imp.Commit() == nil, "import:commit")
	_ = old
	for v := h.first; v < h.latest; v++ {
		delete(h.vers, v)
		delete(h.refRoots, v)
		delete(h.refHash, v)
	}
	h.first = h.latest
	h.allRoots = map[int64]*rNode{h.latest: h.refRoots[h.latest]}
	h.resetWorkToLatest()
	vAssert(vEqBytes(h.tree.Hash(), h.refHash[h.latest]), "import:hash")
}
