package iavl

// C07 Fast index coherence: indexed reads always equal tree-walk reads.
// C09 Rollback erases the future.

var _ = vReg("C07_History", C07_History)
var _ = vReg("C07_ReopenOlder", C07_ReopenOlder)
var _ = vReg("C09_Twin", C09_Twin)
var _ = vReg("C09_Rollback", C09_Rollback)

// c07Coherent: every answer served through the index equals the tree walk (and the model).
func c07Coherent(h *vHist, tag string) {
	n := h.p.n
	for i := 0; i < n; i++ {
		k := h.p.keys[i]
		v, err := h.tree.Get(k) // may be served by the fast index
		vAssert(err == nil, tag+":get-err")
		_, w, err := h.tree.GetWithIndex(k) // always the tree walk
		vAssert(err == nil, tag+":getwithindex-err")
		vAssert((v == nil) == (w == nil), h.l7(tag+":get=treewalk-presence"))
		if v != nil && w != nil {
			vAssert(vEqBytes(v, w), h.l7(tag+":get=treewalk-value"))
		}
		if h.work.present[i] {
			vAssert(vAnd(w != nil, vEqBytes(w, h.work.vals[i])), tag+":treewalk=model")
		} else {
			vAssert(w == nil, tag+":treewalk=model-absent")
		}
		for ver := h.first; ver <= h.latest && ver > 0; ver++ {
			gv, err := h.tree.GetVersioned(k, ver)
			vAssert(err == nil, tag+":getversioned-err")
			m := h.vers[ver]
			if m.present[i] {
				vAssert(vAnd(gv != nil, vEqBytes(gv, m.vals[i])), h.l7(tag+":getversioned=model"))
			} else {
				vAssert(gv == nil, h.l7(tag+":getversioned=model-absent"))
			}
		}
	}
	// iteration over the working state (index + uncommitted changes) = IterateRange (tree walk)
	var walk []int
	h.tree.IterateRange(nil, nil, true, func(key, value []byte) bool {
		for i := 0; i < n; i++ {
			if vConcreteBool(vEqBytes(key, h.p.keys[i])) {
				walk = append(walk, i)
			}
		}
		return false
	})
	pos := 0
	it, err := h.tree.Iterator(nil, nil, true)
	vAssert(err == nil, tag+":iterator-err")
	for ; it.Valid(); it.Next() {
		vAssert(pos < len(walk), h.l7(tag+":iterator-extra"))
		if pos < len(walk) {
			vAssert(vEqBytes(it.Key(), h.p.keys[walk[pos]]), h.l7(tag+":iterator-key=treewalk"))
			vAssert(vEqBytes(it.Value(), h.work.vals[walk[pos]]), h.l7(tag+":iterator-value=treewalk"))
		}
		pos++
	}
	it.Close()
	vAssert(pos == len(walk), h.l7(tag+":iterator-count=treewalk"))
}

// l7 labels assertions inside the region of finding F5.
func (h *vHist) l7(label string) string {
	if h.f5 {
		return "F5:fast-index-built-from-an-older-version-but-labelled-latest"
	}
	return label
}

// c07Raw: after a commit or open the persistent index describes exactly the latest version.
func c07Raw(h *vHist, tag string) {
	if !h.fastOn {
		return
	}
	var m *vModel
	if h.latest > 0 {
		m = h.vers[h.latest]
	} else {
		m = &vModel{}
	}
	nf := 0
	for i := 0; i < len(h.db.keys); i++ {
		if h.db.keys[i][0] == 'f' {
			nf++
		}
	}
	want := 0
	for i := 0; i < h.p.n; i++ {
		if !m.present[i] {
			continue
		}
		want++
		fv := h.db.rawGet(append([]byte{'f'}, h.p.keys[i]...))
		vAssert(fv != nil, h.l7(tag+":raw-entry-missing"))
		if fv != nil {
			_, p, ok := rReadVarint(fv, 0)
			vAssert(ok, tag+":raw-entry-undecodable")
			val, _, ok := rReadBytes(fv, p)
			vAssert(ok, tag+":raw-entry-value-undecodable")
			vAssert(vEqBytes(val, m.vals[i]), h.l7(tag+":raw-entry-value"))
		}
	}
	vAssert(nf == want, h.l7(tag+":raw-entry-count"))
}

func C07_History() {
	cfg := &vHistCfg{name: "C07_History", nKeys: 2, lenVars: 1, valVars: 1, maxOps: 5,
		ops:    []string{"set", "remove", "commit", "rollback", "reopen", "prune"},
		caches: []int{0, 10000}, fast: []bool{true, false}, thresh: []int{0}, reopenCfg: true,
		perStep: func(h *vHist) { c07Coherent(h, "step") }}
	if vTier() == "thorough" {
		cfg.nKeys = 3
		cfg.caches = []int{0}
	}
	h := vStartHist(cfg)
	h.run()
	c07Coherent(h, "final")
	if !h.dirty {
		c07Raw(h, "final")
	}
}

// C07_ReopenOlder: each (re)open independently chooses fast index on/off and which version to load.
func C07_ReopenOlder() {
	cfg, maxV, maxW := c04cfg("C07_ReopenOlder")
	cfg.thresh = []int{0}
	cfg.fast = []bool{false, true}
	cfg.caches = []int{10000}
	cfg.auditOld = false
	h := vStartHist(cfg)
	h.vBuildVersions(maxV, maxW)
	wasFast := h.fastOn
	for round := 0; round < 2; round++ {
		h.fastOn = vChoice("fast-on-reopen", 2) == 1
		h.open()
		target := int64(0)
		if vChoice("load-older", 2) == 1 && h.latest > h.first {
			target = h.first + int64(vChoice("target", int(h.latest-h.first)))
		}
		if target != 0 && h.fastOn && !wasFast {
			// region of finding F5: the index is built for the first time while an older version is loaded
			h.f5 = true
		}
		var err error
		if target == 0 {
			_, err = h.tree.Load()
			h.resetWorkToLatest()
		} else {
			_, err = h.tree.LoadVersion(target)
			h.work = h.vers[target].clone()
			h.workRef = h.refRoots[target]
		}
		vAssert(err == nil, "c07:load-err")
		if h.fastOn {
			wasFast = true
		}
		c07Coherent(h, "after-open")
		if target == 0 {
			c07Raw(h, "after-open")
		}
	}
}

var _ = vReg("C07_Overwrite", C07_Overwrite)

// C07_Overwrite: rollback to an earlier version (also an empty one): straight afterwards, after the next
// commit and after a restart every indexed answer equals the tree walk and the persisted index holds
// exactly the latest version.
func C07_Overwrite() {
	cfg, maxV, maxW := c04cfg("C07_Overwrite")
	cfg.thresh = []int{0}
	cfg.fast = []bool{true}
	cfg.caches = []int{10000, 0}
	cfg.auditOld = false
	h := vStartHist(cfg)
	h.vBuildVersions(maxV, maxW)
	if h.latest < 2 {
		vStop()
	}
	target := h.first + int64(vChoice("target", int(h.latest-h.first)))
	err := h.tree.LoadVersionForOverwriting(target)
	vAssert(err == nil, "c07:overwrite-err")
	for v := target + 1; v <= h.latest; v++ {
		delete(h.vers, v)
		delete(h.refRoots, v)
		delete(h.refHash, v)
	}
	h.latest = target
	h.resetWorkToLatest()
	if h.vers[target].size(h.p.n) == 0 {
		vCover("rollback-to-an-empty-version")
	}
	c07Coherent(h, "after-overwrite")
	c07Raw(h, "after-overwrite")
	if vChoice("write", 2) == 1 {
		h.doSet(vChoice("key", h.p.n))
	}
	h.doCommit()
	c07Coherent(h, "after-overwrite-commit")
	c07Raw(h, "after-overwrite-commit")
	h.doReopen()
	c07Coherent(h, "after-overwrite-reopen")
	c07Raw(h, "after-overwrite-reopen")
}

// c09Same: the two histories are indistinguishable.
func c09Same(a, b *vHist, tag string) {
	vAuditReads(a.tree, a.p, b.work, tag+":reads")
	vAssert(a.latest == b.latest, tag+":model-latest")
	la, _ := a.tree.GetLatestVersion()
	lb, _ := b.tree.GetLatestVersion()
	vAssert(la == lb, tag+":latest-version")
	va, vb := a.tree.AvailableVersions(), b.tree.AvailableVersions()
	vAssert(len(va) == len(vb), tag+":available-versions")
	vAssert(vEqBytes(a.tree.WorkingHash(), b.tree.WorkingHash()), tag+":working-hash")
	vAssert(vEqBytes(a.tree.Hash(), b.tree.Hash()), tag+":hash")
	// the stores hold the same node keys and fast entries
	vAssert(len(a.db.keys) == len(b.db.keys), tag+":store-size")
	for i := 0; i < len(a.db.keys) && i < len(b.db.keys); i++ {
		vAssert(vEqBytes(a.db.keys[i], b.db.keys[i]), tag+":store-key")
		switch a.db.keys[i][0] {
		case 'm':
		case 'f':
			// the last-updated stamp of an index entry may be newer after a rebuild (it is only an upper
			// bound used to decide whether the entry answers a versioned lookup); the value must agree
			_, pa, oka := rReadVarint(a.db.vals[i], 0)
			_, pb, okb := rReadVarint(b.db.vals[i], 0)
			vAssert(oka && okb, tag+":store-fast-entry-undecodable")
			vAssert(vEqBytes(a.db.vals[i][pa:], b.db.vals[i][pb:]), tag+":store-fast-entry-value")
		default:
			vAssert(vEqBytes(a.db.vals[i], b.db.vals[i]), tag+":store-value")
		}
	}
}

// C09_Twin: tree A runs H1, rolls back to v (LoadVersionForOverwriting / DeleteVersionsFrom+reload),
// then H2; tree B (own store) runs the surviving prefix of H1, then H2. They must be indistinguishable.
func C09_Twin() {
	cfg, maxV, maxW := c04cfg("C09_Twin")
	cfg.thresh = []int{0}
	cfg.caches = []int{10000, 0}
	cfg.auditOld = true
	cfg.refHash = true
	a := vStartHist(cfg)
	a.vBuildVersions(maxV, maxW)
	target := a.first + int64(vChoice("target", int(a.latest-a.first+1)))
	// twin B: replay the surviving prefix on its own store with the same keys and values
	b := &vHist{cfg: cfg, db: newVDB(), work: &vModel{}, vers: map[int64]*vModel{}, refRoots: map[int64]*rNode{}, refHash: map[int64][]byte{}, p: a.p, cache: a.cache, fastOn: a.fastOn, thr: a.thr}
	b.open()
	b.tree.Load()
	for v := a.first; v <= target; v++ {
		prev := &vModel{}
		if v > a.first {
			prev = a.vers[v-1]
		}
		cur := a.vers[v]
		c09Apply(b, a, prev, cur, v)
	}
	how := vChoice("how", 2)
	if how == 0 {
		err := a.tree.LoadVersionForOverwriting(target)
		vAssert(err == nil, "c09:loadversionforoverwriting-err")
	} else {
		err := a.tree.DeleteVersionsFrom(target + 1)
		vAssert(err == nil, "c09:deleteversionsfrom-err")
		a.open()
		_, err = a.tree.Load()
		vAssert(err == nil, "c09:reload-err")
	}
	for v := target + 1; v <= a.latest; v++ {
		delete(a.vers, v)
		delete(a.refRoots, v)
		delete(a.refHash, v)
	}
	a.latest = target
	a.resetWorkToLatest()
	a.checkVersions("c09:after-rollback")
	c09Same(a, b, "c09:after-rollback")
	// H2: further writes and a commit on both
	nw := 1 + vChoice("h2writes", 2)
	for w := 0; w < nw; w++ {
		c := vChoice("h2write", 2*a.p.n)
		val := vBytes("h2v", 1)
		if c < a.p.n {
			a.doSetValue(c, val)
			b.doSetValue(c, val)
		} else {
			a.doRemove(c - a.p.n)
			b.doRemove(c - a.p.n)
		}
	}
	a.doCommit()
	b.doCommit()
	c09Same(a, b, "c09:after-h2")
	if vChoice("reopen", 2) == 1 {
		a.doReopen()
		b.doReopen()
		c09Same(a, b, "c09:after-reopen")
	}
	a.audit()
}

// c09Apply replays on b the net writes that take prev to cur exactly as a did them (same reference tree).
func c09Apply(b, a *vHist, prev, cur *vModel, v int64) {
	// a's reference root for version v tells which leaves were (re)written in v: replay every key whose
	// leaf was created in version v, and every removal
	n := a.p.n
	for i := 0; i < n; i++ {
		if prev.present[i] && !cur.present[i] {
			b.doRemove(i)
		}
	}
	for i := 0; i < n; i++ {
		if cur.present[i] && rLeafVersion(a.refRoots[v], 2*i) == v {
			b.doSetValue(i, cur.vals[i])
		}
	}
	b.doCommit()
}

func rLeafVersion(n *rNode, ki int) int64 {
	for n != nil && n.height > 0 {
		if ki < n.ki {
			n = n.left
		} else {
			n = n.right
		}
	}
	if n == nil || n.ki != ki {
		return -1
	}
	return n.version
}

// C09_Rollback: discarding uncommitted changes returns exactly to the last committed version.
func C09_Rollback() {
	cfg := &vHistCfg{name: "C09_Rollback", nKeys: 3, lenVars: 1, valVars: 1, maxOps: 4,
		ops:    []string{"set", "remove", "commit"},
		caches: []int{0, 10000}, fast: []bool{true, false}, thresh: []int{0}, refHash: true, iso: true}
	if vTier() == "thorough" {
		cfg.valVars = 2
	}
	h := vStartHist(cfg)
	for i := 0; i < cfg.maxOps; i++ {
		if !h.step() {
			break
		}
	}
	h.doRollback()
	h.audit()
	c07Coherent(h, "c09:after-rollback")
	// the rolled-back working tree is independent of the last saved one: a further write leaves
	// Hash() (last committed) alone, and a second rollback discards it again
	{
		c := vChoice("write2", 2*h.p.n)
		if c < h.p.n {
			h.doSet(c)
		} else {
			h.doRemove(c - h.p.n)
		}
		h.audit()
		h.doRollback()
		h.audit()
		c07Coherent(h, "c09:after-second-rollback")
	}
	// and the next commit behaves as if the discarded writes never happened
	h.doSet(vChoice("key", h.p.n))
	h.doCommit()
	h.audit()
}

var _ = vReg("C07_LongRollback", C07_LongRollback)

// C07_LongRollback: a history long enough for two-digit version numbers (the label of the persisted index
// names the version it describes): version 1 writes, versions 2..V-1 are commits without writes, version V
// (11..13) writes again; then a rollback to any earlier version, with the index enabled, or disabled and
// re-enabled by the next open. The index must describe the rolled-back version.
func C07_LongRollback() {
	cfg := &vHistCfg{name: "C07_LongRollback", nKeys: 2, lenVars: 1, valVars: 1,
		caches: []int{10000}, fast: []bool{true}, thresh: []int{0}}
	h := vStartHist(cfg)
	h.doSet(0)
	h.doCommit()
	V := int64(11 + vChoice("latest", 3))
	for h.latest < V-1 {
		h.doCommit()
	}
	switch vChoice("lastwrite", 3) {
	case 0:
		h.doSet(1)
	case 1:
		h.doRemove(0)
	case 2:
		h.doSet(0)
	}
	h.doCommit()
	target := int64(1 + vChoice("target", int(V-1)))
	if vChoice("index-off-during-rollback", 2) == 1 {
		h.fastOn = false
		h.doReopen()
		h.doOverwrite(target, "c07long")
		h.fastOn = true
		h.doReopen()
	} else {
		h.doOverwrite(target, "c07long")
	}
	c07Coherent(h, "after-long-rollback")
	c07Raw(h, "after-long-rollback")
	h.doCommit()
	c07Coherent(h, "after-long-rollback-commit")
	c07Raw(h, "after-long-rollback-commit")
	h.doReopen()
	c07Coherent(h, "after-long-rollback-reopen")
	c07Raw(h, "after-long-rollback-reopen")
	vCover("two-digit-versions")
}
