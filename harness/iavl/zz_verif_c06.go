package iavl

// C06 Committed versions can be read concurrently with the writer — the part that can be encoded:
// (a) pinning (sequential), (b) one complete reader call injected at a symbolic point of a writer
// operation. Injection points are every storage call of the writer and the verif-tagged yield points
// (after ndb.Commit in SaveVersion, between per-version steps of deleteVersionsTo) at which no lock a
// reader needs is held. This is every schedule of one writer and one reader in which the reader
// call is not itself preempted. Preemption inside a reader, several interacting readers, the Go memory
// model and asynchronous pruning are outside (DESIGN.md §4 C06).

var _ = vReg("C06_Inject", C06_Inject)
var _ = vReg("C06_Pinning", C06_Pinning)

type c06reader struct {
	h       *vHist
	v       int64
	kind    int
	key     int
	inject  int
	counter int
	ran     bool
	where   string
}

func (r *c06reader) point(kind string) {
	h := r.h
	// a reader that needs a lock the writer holds simply waits: not an injection point
	if !h.tree.ndb.mtx.TryLock() {
		return
	}
	h.tree.ndb.mtx.Unlock()
	if !h.tree.mtx.TryLock() {
		return
	}
	h.tree.mtx.Unlock()
	r.counter++
	if r.ran || r.counter > r.inject {
		return
	}
	// run the reader here, or let the writer go on to its next injection point
	if vChoice("inject", 2) == 0 {
		return
	}
	r.ran = true
	r.where = kind
	if kind == "SaveVersion:after-ndb-commit" && h.fastOn && r.v == h.latest {
		// region of finding F10: between ndb.Commit and resetLatestVersion the persisted fast index already
		// describes the new version while the old version still counts as latest
		vRegion("F10:reader-of-the-previous-latest-version-sees-the-new-fast-index-during-commit")
	}
	r.read()
	vRegion("")
}

func (r *c06reader) read() {
	h := r.h
	m := h.vers[r.v]
	it, err := h.tree.GetImmutable(r.v)
	vAssert(err == nil, "c06:getimmutable")
	if err != nil {
		return
	}
	k := h.p.keys[r.key]
	switch r.kind {
	case 0:
		val, err := it.Get(k)
		vAssert(err == nil, "c06:get-err")
		if m.present[r.key] {
			vAssert(val != nil, "c06:get-missing")
			if val != nil {
				vAssert(vEqBytes(val, m.vals[r.key]), "c06:get-value")
			}
		} else {
			vAssert(val == nil, "c06:get-phantom")
		}
	case 1:
		has, err := it.Has(k)
		vAssert(err == nil, "c06:has-err")
		vAssert(has == m.present[r.key], "c06:has")
	case 2:
		idx, val, err := it.GetWithIndex(k)
		vAssert(err == nil, "c06:getwithindex-err")
		vAssert(idx == int64(m.rankOf(r.key)), "c06:getwithindex-index")
		vAssert((val != nil) == m.present[r.key], "c06:getwithindex-presence")
	case 3:
		pos := 0
		_, err := it.Iterate(func(key, value []byte) bool {
			i := m.nth(h.p.n, pos)
			vAssert(i >= 0, "c06:iterate-extra")
			if i >= 0 {
				vAssert(vEqBytes(key, h.p.keys[i]), "c06:iterate-key")
				vAssert(vEqBytes(value, m.vals[i]), "c06:iterate-value")
			}
			pos++
			return false
		})
		vAssert(err == nil, "c06:iterate-err")
		vAssert(pos == m.size(h.p.n), "c06:iterate-count")
	case 4:
		if m.size(h.p.n) > 0 {
			p, err := it.GetProof(k)
			vAssert(err == nil && p != nil, "c06:getproof")
		}
		vAssert(vEqBytes(it.Hash(), h.refHash[r.v]), "c06:hash")
	}
}

func C06_Inject() {
	cfg := &vHistCfg{name: "C06_Inject", nKeys: 2, lenVars: 1, valVars: 1,
		caches: []int{0, 10000}, fast: []bool{false, true}, thresh: []int{0}, refHash: true}
	maxV, maxW := 2, 1
	maxPoints := 40
	if vTier() == "thorough" {
		cfg.nKeys = 3
		maxPoints = 80
	}
	h := vStartHist(cfg)
	h.vBuildVersions(maxV, maxW)
	n := h.p.n
	r := &c06reader{h: h, inject: maxPoints, kind: vChoice("reader", 5), key: vChoice("rkey", n)}
	op := vChoice("writer", 4)
	pruneTo := int64(0)
	lo := h.first
	if op == 3 {
		if h.latest < 2 {
			vStop()
		}
		pruneTo = h.first + int64(vChoice("pruneTo", int(h.latest-h.first)))
		lo = pruneTo + 1 // the reader reads a version that is not being deleted
	}
	r.v = lo + int64(vChoice("rversion", int(h.latest-lo+1)))
	h.db.onCall = r.point
	verifHook = r.point
	switch op {
	case 0: // write + commit
		c := vChoice("write", 2*n)
		if c < n {
			h.doSet(c)
		} else {
			h.doRemove(c - n)
		}
		h.doCommit()
	case 1: // uncommitted Set
		h.doSet(vChoice("wkey", n))
	case 2: // uncommitted Remove
		h.doRemove(vChoice("wkey", n))
	case 3:
		err := h.tree.DeleteVersionsTo(pruneTo)
		vAssert(err == nil, "c06:prune-err")
	}
	h.db.onCall = nil
	verifHook = nil
	vAssert(r.counter <= maxPoints, "c06:writer-has-more-injection-points-than-explored")
	if r.ran {
		vCover("reader-injected")
	} else {
		vCover("reader-not-injected")
	}
}

// C06_Pinning: a version pinned by open exports cannot be deleted until every export on it is closed
// (one or two exports on the pinned version, optionally one more on a later version; closed in either order).
func C06_Pinning() {
	cfg, maxV, _ := c04cfg("C06_Pinning")
	cfg.thresh = []int{0}
	h := vStartHist(cfg)
	h.vBuildVersions(maxV, 1)
	if h.latest < 2 {
		vStop()
	}
	// the pinned version may be the latest one at the time the export is opened; the writer then commits
	// once more, so that it becomes deletable
	pin := h.first + int64(vChoice("pin", int(h.latest-h.first+1)))
	nExp := 1 + vChoice("exports", 2)
	var exps []*Exporter
	for i := 0; i < nExp; i++ {
		it, err := h.tree.GetImmutable(pin)
		vAssert(err == nil, "pin:getimmutable")
		ex, err := it.Export()
		vAssert(err == nil, "pin:export")
		exps = append(exps, ex)
	}
	if pin == h.latest {
		h.doSet(vChoice("later", h.p.n))
		h.doCommit()
		vCover("export-of-the-latest-version")
	}
	// an unrelated export on the latest version must not matter
	var other *Exporter
	if vChoice("other", 2) == 1 {
		it, err := h.tree.GetImmutable(h.latest)
		vAssert(err == nil, "pin:getimmutable-latest")
		other, err = it.Export()
		vAssert(err == nil, "pin:export-latest")
	}
	n := pin + int64(vChoice("n", int(h.latest-pin)))
	before := len(h.db.keys)
	err := h.tree.DeleteVersionsTo(n)
	vAssert(err != nil, "pin:delete-of-pinned-version-rejected")
	vAssert(len(h.db.keys) == before, "pin:rejected-delete-has-no-effect")
	// close the exports one by one: the version stays pinned until the last one is closed
	first := 0
	if nExp == 2 {
		first = vChoice("closefirst", 2)
	}
	for k := 0; k < nExp; k++ {
		exps[(first+k)%nExp].Close()
		if k < nExp-1 {
			err := h.tree.DeleteVersionsTo(n)
			vAssert(err != nil, "pin:delete-while-another-export-is-still-open")
			vAssert(len(h.db.keys) == before, "pin:rejected-delete-has-no-effect-2")
			vCover("two-exports")
		}
	}
	err = h.tree.DeleteVersionsTo(n)
	vAssert(err == nil, "pin:delete-after-close")
	for v := h.first; v <= n; v++ {
		delete(h.vers, v)
		delete(h.refRoots, v)
	}
	h.first = n + 1
	h.checkVersions("pin:after-delete")
	h.audit()
	if other != nil {
		other.Close()
	}
	vCover("pinned-delete-rejected")
}

var _ = vReg("C06_PreemptReader", C06_PreemptReader)

// c06writer is the dual of c06reader: one complete writer operation is run in the middle of a reader
// call, at a symbolic one of the reader's storage calls (before the call, or after it has been answered)
// at which the reader holds no lock the writer needs. This is every schedule of one reader call and one
// writer operation in which the writer operation is not itself preempted.
type c06writer struct {
	h        *vHist
	op       int
	key      int
	pruneTo  int64
	inject   int
	counter  int
	ran      bool
	fastIter bool // the reader call iterates the latest version with the fast index on
	phase    int  // 0: the reader is obtaining its version, 1: it is reading it
	f21      bool // region of finding F21
}

// l labels the reader's own assertions inside the region of finding F21: a reader of the latest version
// that has decided to use the fast index (IsFastCacheEnabled) is preempted by a commit before it has
// opened the storage iterator, and then iterates the next version's index.
func (w *c06writer) l(label string) string {
	if w.f21 {
		return "F21:reader-of-the-latest-version-preempted-by-a-commit-between-choosing-and-opening-the-fast-iterator"
	}
	return label
}

func (w *c06writer) point(kind string) {
	h := w.h
	// a writer that needs a lock the reader holds simply waits: not an injection point
	if !h.tree.ndb.mtx.TryLock() {
		return
	}
	h.tree.ndb.mtx.Unlock()
	if !h.tree.mtx.TryLock() {
		return
	}
	h.tree.mtx.Unlock()
	w.counter++
	if w.ran || w.counter > w.inject {
		return
	}
	// preempt the reader here, or let it go on to its next storage call
	if vChoice("preempt", 2) == 0 {
		return
	}
	w.ran = true
	if w.phase == 1 && w.op <= 1 && w.fastIter {
		w.f21 = true
	}
	switch w.op {
	case 0:
		h.doSet(w.key)
		h.doCommit()
	case 1:
		h.doRemove(w.key)
		h.doCommit()
	case 2:
		h.doSet(w.key) // uncommitted
	case 3:
		err := h.tree.DeleteVersionsTo(w.pruneTo)
		vAssert(err == nil, "c06w:prune-err")
		for v := h.first; v <= w.pruneTo; v++ {
			delete(h.vers, v)
			delete(h.refRoots, v)
			delete(h.refHash, v)
		}
		h.first = w.pruneTo + 1
	}
}

func C06_PreemptReader() {
	cfg := &vHistCfg{name: "C06_PreemptReader", nKeys: 2, lenVars: 1, valVars: 1,
		caches: []int{0, 10000}, fast: []bool{false, true}, thresh: []int{0}, refHash: true, auditOld: true}
	maxV, maxW := 2, 1
	maxPoints := 40
	if vTier() == "thorough" {
		cfg.nKeys = 3
		maxPoints = 80
	}
	h := vStartHist(cfg)
	h.vBuildVersions(maxV, maxW)
	n := h.p.n
	// cold caches (a restart) make every read of the reader a storage call, i.e. a preemption point
	if vTier() != "thorough" || vChoice("reopen", 2) == 1 {
		h.doReopen()
	}
	w := &c06writer{h: h, inject: maxPoints, op: vChoice("writer", 4), key: vChoice("wkey", n)}
	lo := h.first
	if w.op == 3 {
		if h.latest < 2 {
			vStop()
		}
		w.pruneTo = h.first + int64(vChoice("pruneTo", int(h.latest-h.first)))
		lo = w.pruneTo + 1 // the reader reads a version that is not being deleted
	}
	rv := lo + int64(vChoice("rversion", int(h.latest-lo+1)))
	kind := vChoice("reader", 6)
	rkey := vChoice("rkey", n)
	m := h.vers[rv]
	wasLatest := rv == h.latest
	k := h.p.keys[rkey]
	h.db.onCall = w.point
	h.db.onDone = w.point
	if kind == 5 {
		val, err := h.tree.GetVersioned(k, rv)
		vAssert(err == nil, "c06w:getversioned-err")
		if m.present[rkey] {
			vAssert(vAnd(val != nil, vEqBytes(val, m.vals[rkey])), "c06w:getversioned-value")
		} else {
			vAssert(val == nil, "c06w:getversioned-phantom")
		}
	} else {
		it, err := h.tree.GetImmutable(rv)
		vAssert(err == nil, "c06w:getimmutable")
		w.fastIter = wasLatest && h.fastOn && (kind == 3 || kind == 4) && !w.ran
		w.phase = 1
		if err == nil {
			switch kind {
			case 0:
				val, err := it.Get(k)
				vAssert(err == nil, "c06w:get-err")
				if m.present[rkey] {
					vAssert(vAnd(val != nil, vEqBytes(val, m.vals[rkey])), "c06w:get-value")
				} else {
					vAssert(val == nil, "c06w:get-phantom")
				}
			case 1:
				has, err := it.Has(k)
				vAssert(err == nil, "c06w:has-err")
				vAssert(has == m.present[rkey], "c06w:has")
			case 2:
				idx, val, err := it.GetWithIndex(k)
				vAssert(err == nil, "c06w:getwithindex-err")
				vAssert(idx == int64(m.rankOf(rkey)), "c06w:getwithindex-index")
				vAssert((val != nil) == m.present[rkey], "c06w:getwithindex-presence")
			case 3:
				pos := 0
				_, err := it.Iterate(func(key, value []byte) bool {
					i := m.nth(n, pos)
					vAssert(i >= 0, w.l("c06w:iterate-extra"))
					if i >= 0 {
						vAssert(vEqBytes(key, h.p.keys[i]), w.l("c06w:iterate-key"))
						vAssert(vEqBytes(value, m.vals[i]), w.l("c06w:iterate-value"))
					}
					pos++
					return false
				})
				vAssert(err == nil, "c06w:iterate-err")
				vAssert(pos == m.size(n), w.l("c06w:iterate-count"))
			case 4:
				pos := 0
				itr, err := it.Iterator(nil, nil, true)
				vAssert(err == nil, "c06w:iterator-err")
				if err == nil {
					for ; itr.Valid(); itr.Next() {
						i := m.nth(n, pos)
						vAssert(i >= 0, w.l("c06w:iterator-extra"))
						if i >= 0 {
							vAssert(vEqBytes(itr.Key(), h.p.keys[i]), w.l("c06w:iterator-key"))
							vAssert(vEqBytes(itr.Value(), m.vals[i]), w.l("c06w:iterator-value"))
						}
						pos++
					}
					vAssert(itr.Error() == nil, "c06w:iterator-error")
					itr.Close()
					vAssert(pos == m.size(n), w.l("c06w:iterator-count"))
				}
			}
		}
	}
	h.db.onCall = nil
	h.db.onDone = nil
	vAssert(w.counter <= maxPoints, "c06w:reader-has-more-injection-points-than-explored")
	if w.ran {
		vCover("writer-injected")
	} else {
		vCover("writer-not-injected")
	}
	// whatever the reader left in the shared caches, every version still reads correctly through
	// every path, also after one more commit
	h.audit()
	c07Coherent(h, "c06w:after")
	if !w.ran || w.op != 2 {
		h.doSet(vChoice("key2", n))
	}
	h.doCommit()
	h.audit()
	c07Coherent(h, "c06w:after-commit")
}
