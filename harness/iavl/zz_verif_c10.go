package iavl

// C10 Export/import fidelity, and an importer that is total on hostile input.

import (
	"errors"

	ics23 "github.com/cosmos/ics23/go"
)

var _ = vReg("C10_RoundTrip", C10_RoundTrip)
var _ = vReg("C10_Hostile", C10_Hostile)
var _ = vReg("C10_HostileCompressed", C10_HostileCompressed)

// rPostOrder appends the reference post-order stream of r.
func rPostOrder(r *rNode, out []*rNode) []*rNode {
	if r == nil {
		return out
	}
	if r.height > 0 {
		out = rPostOrder(r.left, out)
		out = rPostOrder(r.right, out)
	}
	return append(out, r)
}

// C10_RoundTrip: export any retained version (empty tree, single leaf, root inherited from an
// earlier version, ...) plain or compressed; the stream is the reference post-order; importing
// it into an empty store gives the same hash, contents and proofs, and identical later commits.
func C10_RoundTrip() {
	cfg := &vHistCfg{name: "C10_RoundTrip", lenVars: 1, lenSet: []int{0, 5}, valVars: 1, caches: []int{0}, fast: []bool{false, true}, thresh: []int{0}, refHash: true}
	maxH := 2
	if vTier() == "thorough" {
		// (height 3 did not finish within 50 minutes once the empty key had been added to the pool)
		cfg.lenSet = []int{0, 1, 5}
	}
	h := vShapeState(cfg, maxH, 1, []int{1})
	// optional second version: a write, or a commit without writes (root inherited)
	switch vChoice("second", 4) {
	case 1:
		h.doCommit()
	case 2:
		if h.p.n > 0 {
			h.doSet(vChoice("key2", h.p.n))
			h.doCommit()
		}
	case 3:
		if h.p.n > 0 {
			h.doRemove(vChoice("key2", h.p.n))
			h.doCommit()
		}
	}
	v := h.first + int64(vChoice("exportversion", int(h.latest-h.first+1)))
	it, err := h.tree.GetImmutable(v)
	vAssert(err == nil, "c10:getimmutable")
	ex, err := it.Export()
	vAssert(err == nil, "c10:export")
	compressed := vChoice("compressed", 2) == 1
	var src NodeExporter = ex
	if compressed {
		src = NewCompressExporter(ex)
	}
	want := rPostOrder(h.refRoots[v], nil)
	// import side
	db2 := newVDB()
	t2 := NewMutableTree(db2, 0, !h.fastOn, NewNopLogger())
	imp, err := t2.Import(v)
	vAssert(err == nil, "c10:import")
	var dst NodeImporter = imp
	if compressed {
		dst = NewCompressImporter(imp)
	}
	pos := 0
	for {
		n, err := src.Next()
		if err != nil {
			vAssert(errors.Is(err, ErrorExportDone), "c10:export-error")
			break
		}
		vAssert(pos < len(want), "c10:export-extra-node")
		if !compressed {
			w := want[pos]
			vAssert(n.Height == w.height, "c10:stream-height")
			vAssert(n.Version == w.version, "c10:stream-version")
			vAssert(vEqBytes(n.Key, w.key), "c10:stream-key")
			if w.height == 0 {
				vAssert(vEqBytes(n.Value, w.value), "c10:stream-value")
			} else {
				vAssert(n.Value == nil, "c10:stream-inner-value")
			}
		}
		pos++
		err = dst.Add(n)
		vAssert(err == nil, "c10:add-err")
	}
	vAssert(pos == len(want), "c10:export-complete")
	ex.Close()
	// nothing visible before Commit
	t3 := NewMutableTree(db2, 0, true, NewNopLogger())
	lv, err := t3.Load()
	vAssert(err == nil && lv == 0, "c10:visible-before-commit")
	err = imp.Commit()
	vAssert(err == nil, "c10:commit-err")
	vAssert(vEqBytes(t2.Hash(), h.refHash[v]), "c10:imported-hash")
	vAuditReads(t2, h.p, h.vers[v], "c10:imported")
	if h.vers[v].size(h.p.n) > 0 {
		i := vChoice("proofkey", h.p.n)
		p, err := t2.GetProof(h.p.keys[i])
		vAssert(err == nil, "c10:proof-err")
		// the same proof as the original version gives (whether proofs verify at all is C03: a proof that
		// involves the empty key does not, finding F22)
		po, err := it.GetProof(h.p.keys[i])
		vAssert(err == nil, "c10:original-proof-err")
		if h.vers[v].present[i] {
			want := ics23.VerifyMembership(ics23.IavlSpec, h.refHash[v], po, h.p.keys[i], h.vers[v].vals[i])
			vAssert(ics23.VerifyMembership(ics23.IavlSpec, h.refHash[v], p, h.p.keys[i], h.vers[v].vals[i]) == want, "c10:imported-membership-proof")
			vAssert(want || len(h.p.keys[i]) == 0, "c10:original-membership-proof")
		} else {
			want := ics23.VerifyNonMembership(ics23.IavlSpec, h.refHash[v], po, h.p.keys[i])
			vAssert(ics23.VerifyNonMembership(ics23.IavlSpec, h.refHash[v], p, h.p.keys[i]) == want, "c10:imported-nonmembership-proof")
			vAssert(want || len(h.p.keys[0]) == 0, "c10:original-nonmembership-proof")
		}
	}
	// identical later commits: apply the same write to the original (loaded at v) and the import
	if h.p.n > 0 {
		src2 := NewMutableTree(h.db, 0, !h.fastOn, NewNopLogger())
		_, err = src2.LoadVersion(v)
		vAssert(err == nil, "c10:loadversion")
		j := vChoice("nextkey", h.p.n)
		val := vBytes("nextval", 1)
		if vChoice("nextop", 2) == 0 {
			src2.Set(h.p.keys[j], val)
			t2.Set(h.p.keys[j], val)
		} else {
			src2.Remove(h.p.keys[j])
			t2.Remove(h.p.keys[j])
		}
		vAssert(vEqBytes(src2.WorkingHash(), t2.WorkingHash()), "c10:future-hash")
		h2, v2, err := t2.SaveVersion()
		vAssert(err == nil && v2 == v+1, "c10:future-commit")
		vAssert(len(h2) == 32, "c10:future-commit-hash")
	}
	vCover("roundtrip")
}

func c10node(tag string) *ExportNode {
	n := &ExportNode{Height: vInt8(tag + "height"), Version: vInt64(tag + "version")}
	switch vChoice(tag+"kv", 5) {
	case 0: // key and value
		n.Key = vBytes(tag+"k", 1)
		n.Value = vBytes(tag+"v", 1)
	case 1: // key only (inner node shape)
		n.Key = vBytes(tag+"k", 1)
	case 2: // value only
		n.Value = vBytes(tag+"v", 1)
	case 3: // empty (non-nil) key and value
		n.Key = []byte{}
		n.Value = []byte{}
	case 4: // nothing
	}
	return n
}

func c10hostile(compressed bool) {
	maxN := 2
	if vTier() == "thorough" {
		maxN = 3
	}
	db := newVDB()
	tree := NewMutableTree(db, 0, vChoice("skipfast", 2) == 0, NewNopLogger())
	imp, err := tree.Import(3)
	vAssert(err == nil, "hostile:import")
	var dst NodeImporter = imp
	if compressed {
		dst = NewCompressImporter(imp)
	}
	n := vChoice("nodes", maxN+1)
	for i := 0; i < n; i++ {
		node := c10node("n")
		if i == 0 && !compressed && vChoice("nilnode", 2) == 1 {
			node = nil // the plain importer documents that a nil node is rejected
		}
		dst.Add(node) // error or not: must not panic or hang
	}
	committed := false
	if vChoice("finish", 2) == 0 {
		err := imp.Commit()
		committed = err == nil
		if err != nil {
			imp.Close()
		}
	} else {
		imp.Close()
	}
	// nothing becomes visible unless Commit succeeded
	t2 := NewMutableTree(db, 0, true, NewNopLogger())
	lv, err := t2.Load()
	if committed {
		vAssert(err == nil, "hostile:load-after-commit")
		vAssert(lv == 3, "hostile:committed-version")
		vCover("hostile-committed")
	} else {
		vAssert(err == nil, "hostile:load-after-failed-import")
		vAssert(lv == 0, "hostile:visible-without-commit")
		vCover("hostile-rejected")
	}
}

func C10_Hostile()           { c10hostile(false) }
func C10_HostileCompressed() { c10hostile(true) }

var _ = vReg("C10_MultiBatch", C10_MultiBatch)

// C10_MultiBatch: an import that needs more than one database batch (more than 10000 nodes): the
// batch-writer goroutine protocol of Importer.writeNode/Commit/Close under the cooperative scheduler
// (a hang shows as "all goroutines are asleep"). One concrete path: a complete tree of 8192 leaves.
func C10_MultiBatch() {
	db := newVDB()
	tree := NewMutableTree(db, 0, true, NewNopLogger())
	imp, err := tree.Import(1)
	vAssert(err == nil, "multibatch:import")
	n := 0
	var gen func(lo, hi int) int8
	gen = func(lo, hi int) int8 {
		if hi-lo == 1 {
			k := []byte{byte(lo >> 8), byte(lo)}
			vAssert(imp.Add(&ExportNode{Key: k, Value: []byte{1}, Version: 1, Height: 0}) == nil, "multibatch:add-leaf")
			n++
			return 0
		}
		mid := (lo + hi) / 2
		hl := gen(lo, mid)
		hr := gen(mid, hi)
		h := hl
		if hr > h {
			h = hr
		}
		k := []byte{byte(mid >> 8), byte(mid)}
		vAssert(imp.Add(&ExportNode{Key: k, Version: 1, Height: h + 1}) == nil, "multibatch:add-inner")
		n++
		return h + 1
	}
	gen(0, 8192)
	vAssert(n == 16383, "multibatch:count")
	if vChoice("abort", 2) == 1 {
		// the import is given up after the first database batch has been written: nothing may be
		// visible, and the same database can be imported into again
		imp.Close()
		t3 := NewMutableTree(db, 0, true, NewNopLogger())
		lv, err := t3.Load()
		vAssert(err == nil && lv == 0, "F26:aborted-multi-batch-import-leaves-nodes-behind")
		imp2, err := t3.Import(1)
		vAssert(err == nil, "F26:aborted-multi-batch-import-leaves-nodes-behind")
		if imp2 != nil {
			imp2.Close()
		}
		vCover("multibatch-aborted")
		return
	}
	vAssert(imp.Commit() == nil, "multibatch:commit")
	imp.Close()
	t2 := NewMutableTree(db, 0, true, NewNopLogger())
	lv, err := t2.Load()
	vAssert(err == nil && lv == 1, "multibatch:load")
	vAssert(t2.Size() == 8192, "multibatch:size")
	v, err := t2.Get([]byte{0x12, 0x34})
	vAssert(err == nil && len(v) == 1 && v[0] == 1, "multibatch:get")
	vCover("multibatch")
}
