package db

// C18 Bundled storage backends implement one ordered-KV contract.
// PrefixDB (over the vDB contract model), MemDB (real google/btree and iterator goroutine under the
// cooperative scheduler) and the LevelDB iterator adapter (over a harness implementation of
// goleveldb's iterator.Iterator contract) against a sorted-map model.

import (
	"bytes"

	corestore "cosmossdk.io/core/store"
	"github.com/syndtr/goleveldb/leveldb/util"
)

var _ = vReg("C18_PrefixDB", C18_PrefixDB)
var _ = vReg("C18_MemDB", C18_MemDB)
var _ = vReg("C18_LevelIterAdapter", C18_LevelIterAdapter)

const c18Pool = 3

type c18model struct {
	present [c18Pool]bool
	vals    [c18Pool][]byte
}

type c18env struct {
	db   corestore.KVStoreWithBatch
	keys [c18Pool][]byte
	m    c18model
}

func c18keys(variants int) (keys [c18Pool][]byte) {
	lens := []int{1, 2, 1}
	if vTier() == "thorough" && variants > 1 {
		if vChoice("lens", 2) == 1 {
			lens = []int{2, 2, 2}
		}
	}
	var ks [][]byte
	for i := 0; i < c18Pool; i++ {
		keys[i] = vBytes("k"+string(rune('a'+i)), lens[i])
		ks = append(ks, keys[i])
	}
	vOrdered(ks)
	return
}

func (e *c18env) expected(si, ei int, reverse bool) []int {
	var out []int
	for i := 0; i < c18Pool; i++ {
		if !e.m.present[i] || (si >= 0 && i < si) || (ei >= 0 && i >= ei) {
			continue
		}
		out = append(out, i)
	}
	if reverse {
		for a, b := 0, len(out)-1; a < b; a, b = a+1, b-1 {
			out[a], out[b] = out[b], out[a]
		}
	}
	return out
}

func (e *c18env) checkIter(si, ei int, reverse bool, tag string) {
	var start, end []byte
	if si >= 0 {
		start = e.keys[si]
	}
	if ei >= 0 {
		end = e.keys[ei]
	}
	var it corestore.Iterator
	var err error
	if reverse {
		it, err = e.db.ReverseIterator(start, end)
	} else {
		it, err = e.db.Iterator(start, end)
	}
	vAssert(err == nil, tag+":iterator-err")
	want := e.expected(si, ei, reverse)
	pos := 0
	for ; it.Valid(); it.Next() {
		vAssert(pos < len(want), tag+":iterator-extra")
		if pos < len(want) {
			vAssert(vEqBytes(it.Key(), e.keys[want[pos]]), tag+":iterator-key")
			vAssert(vEqBytes(it.Value(), e.m.vals[want[pos]]), tag+":iterator-value")
		}
		pos++
	}
	vAssert(pos == len(want), tag+":iterator-missing")
	vAssert(it.Error() == nil, tag+":iterator-error")
	vAssert(!it.Valid(), tag+":iterator-invalid-for-good")
	vAssert(it.Close() == nil, tag+":iterator-close")
}

func (e *c18env) checkPoint(tag string) {
	for i := 0; i < c18Pool; i++ {
		v, err := e.db.Get(e.keys[i])
		vAssert(err == nil, tag+":get-err")
		has, err := e.db.Has(e.keys[i])
		vAssert(err == nil, tag+":has-err")
		vAssert(has == e.m.present[i], tag+":has")
		if e.m.present[i] {
			vAssert(v != nil, tag+":get-missing")
			if v != nil {
				vAssert(vEqBytes(v, e.m.vals[i]), tag+":get-value")
			}
		} else {
			vAssert(v == nil, tag+":get-phantom")
		}
	}
}

// step performs one program step (every choice is explored).
func (e *c18env) step() {
	switch vChoice("op", 6) {
	case 0:
		i := vChoice("key", c18Pool)
		v := vBytes("v", 1)
		vAssert(e.db.Set(e.keys[i], v) == nil, "set-err")
		e.m.present[i], e.m.vals[i] = true, v
	case 1:
		i := vChoice("key", c18Pool)
		vAssert(e.db.Delete(e.keys[i]) == nil, "delete-err")
		e.m.present[i], e.m.vals[i] = false, nil
	case 2: // batch: two operations applied atomically and in order when written
		b := e.db.NewBatch()
		shadow := e.m
		i0 := vChoice("bkey", c18Pool)
		for k := 0; k < 2; k++ {
			i := (i0 + k*vChoice("bstride", 2)) % c18Pool // second operation: same key or the next one
			if vChoice("bop", 2) == 0 {
				v := vBytes("bv", 1)
				vAssert(b.Set(e.keys[i], v) == nil, "batch-set-err")
				shadow.present[i], shadow.vals[i] = true, v
			} else {
				vAssert(b.Delete(e.keys[i]) == nil, "batch-delete-err")
				shadow.present[i], shadow.vals[i] = false, nil
			}
		}
		// nothing visible before Write
		e.checkPoint("batch-before-write")
		if vChoice("write", 2) == 0 {
			vAssert(b.Write() == nil, "batch-write-err")
			e.m = shadow
			// cannot be reused afterwards
			vAssert(b.Set(e.keys[0], []byte{1}) != nil, "batch-reused-after-write:set")
			vAssert(b.Write() != nil, "batch-reused-after-write:write")
		} else {
			vAssert(b.Close() == nil, "batch-close-err")
			vAssert(b.Write() != nil, "batch-write-after-close")
		}
	case 3: // rejected inputs: empty key, nil value
		vAssert(e.db.Set([]byte{}, []byte{1}) != nil, "empty-key-stored")
		vAssert(e.db.Set(nil, []byte{1}) != nil, "nil-key-stored")
		vAssert(e.db.Set(e.keys[0], nil) != nil, "nil-value-stored")
		b := e.db.NewBatch()
		vAssert(b.Set([]byte{}, []byte{1}) != nil, "batch-empty-key")
		vAssert(b.Set(e.keys[0], nil) != nil, "batch-nil-value")
		vAssert(b.Delete(nil) != nil, "batch-delete-nil-key")
		b.Close()
		_, err := e.db.Get(nil)
		vAssert(err != nil, "get-nil-key")
	case 4: // the empty value is a value
		i := vChoice("key", c18Pool)
		vAssert(e.db.Set(e.keys[i], []byte{}) == nil, "set-empty-value-err")
		e.m.present[i], e.m.vals[i] = true, []byte{}
		v, err := e.db.Get(e.keys[i])
		vAssert(err == nil && v != nil && len(v) == 0, "empty-value-read-back")
	case 5:
		si := vChoice("start", c18Pool+1) - 1
		ei := vChoice("end", c18Pool+1) - 1
		e.checkIter(si, ei, vChoice("reverse", 2) == 1, "iter")
	}
}

func (e *c18env) run(maxOps int) {
	for i := 0; i < maxOps; i++ {
		e.step()
	}
	e.checkPoint("final")
	e.checkIter(-1, -1, false, "final-forward")
	e.checkIter(-1, -1, true, "final-reverse")
}

func c18ops() int {
	if vTier() == "thorough" {
		return 3
	}
	return 2
}

// C18_PrefixDB: the prefix-namespaced view over the contract model; keys outside the prefix are
// never shown or touched, whatever bytes the prefix and the keys contain.
func C18_PrefixDB() {
	base := newVDB()
	plen := 1 + vChoice("plen", 2)
	prefix := vBytes("p", plen)
	// raw keys outside the namespace: any bytes that do not start with the prefix (below, above,
	// the incremented prefix, a proper prefix of the prefix, ...) and the prefix itself
	nOut := 1
	var outK, outV [][]byte
	for i := 0; i < nOut; i++ {
		r := vBytes("raw", 1+vChoice("rawlen", 3))
		vAssume(vNot(bytes.HasPrefix(r, prefix)))
		if i == 1 {
			vAssume(vNot(vEqBytes(r, outK[0])))
		}
		outK = append(outK, r)
		outV = append(outV, []byte{byte(0xE0 + i)})
		base.put(r, outV[i])
	}
	if vChoice("exact", 2) == 1 {
		outK = append(outK, append([]byte{}, prefix...))
		outV = append(outV, []byte{0xEE})
		base.put(prefix, []byte{0xEE})
	}
	// the slice handed to NewPrefixDB may have spare capacity (a prefix cut from a longer buffer):
	// the view must neither depend on it nor write into it
	given := make([]byte, plen, plen+8*vChoice("spare", 2))
	copy(given, prefix)
	e := &c18env{db: NewPrefixDB(base, given), keys: c18keys(1)}
	// initial contents of the view, written straight into the base store: none, or all three pool keys
	// (thorough tier: programs of two steps populate the view themselves)
	if vTier() != "thorough" && vChoice("populated", 2) == 1 {
		for i := 0; i < c18Pool; i++ {
			v := vBytes("iv", 1)
			base.put(append(append([]byte{}, prefix...), e.keys[i]...), v)
			e.m.present[i], e.m.vals[i] = true, v
		}
	}
	e.run(c18ops() - 1)
	vAssert(len(given) == plen && vConcreteBool(vEqBytes(given, prefix)), "prefix:callers-prefix-slice-modified")
	// outside keys untouched, and the base holds exactly outside keys + prefixed model keys
	want := 0
	for i := 0; i < c18Pool; i++ {
		if e.m.present[i] {
			want++
			raw := base.rawGet(append(append([]byte{}, prefix...), e.keys[i]...))
			vAssert(raw != nil, "prefix:model-key-not-in-base")
		}
	}
	for i := range outK {
		got := base.rawGet(outK[i])
		vAssert(got != nil && vConcreteBool(vEqBytes(got, outV[i])), "prefix:outside-key-touched")
	}
	vAssert(len(base.keys) == want+len(outK), "prefix:base-key-count")
	vCover("prefixdb-checked")
}

func (d *vDB) rawGet(key []byte) []byte {
	i, ok := d.find(key)
	if !ok {
		return nil
	}
	return d.vals[i]
}

// C18_MemDB: the in-memory backend from source.
func C18_MemDB() {
	e := &c18env{db: NewMemDB(), keys: c18keys(2)}
	e.run(c18ops())
	vCover("memdb-checked")
}

// ---- LevelDB iterator adapter over a model of goleveldb's iterator contract

type c18ldbIter struct {
	keys, vals [][]byte // range-limited, ascending
	pos        int      // -1 before first, len = after last
	released   bool
}

func (s *c18ldbIter) First() bool {
	s.pos = 0
	return s.Valid()
}
func (s *c18ldbIter) Last() bool {
	s.pos = len(s.keys) - 1
	return s.Valid()
}
func (s *c18ldbIter) Seek(key []byte) bool {
	s.pos = len(s.keys)
	for i := range s.keys {
		if bytes.Compare(s.keys[i], key) >= 0 {
			s.pos = i
			break
		}
	}
	return s.Valid()
}
func (s *c18ldbIter) Next() bool {
	if s.pos < len(s.keys) {
		s.pos++
	}
	return s.Valid()
}
func (s *c18ldbIter) Prev() bool {
	if s.pos >= 0 {
		s.pos--
	}
	return s.Valid()
}
func (s *c18ldbIter) Valid() bool                 { return !s.released && s.pos >= 0 && s.pos < len(s.keys) }
func (s *c18ldbIter) Error() error                { return nil }
func (s *c18ldbIter) Release()                    { s.released = true }
func (s *c18ldbIter) SetReleaser(r util.Releaser) {}
func (s *c18ldbIter) Key() []byte {
	if !s.Valid() {
		return nil
	}
	return s.keys[s.pos]
}
func (s *c18ldbIter) Value() []byte {
	if !s.Valid() {
		return nil
	}
	return s.vals[s.pos]
}

// C18_LevelIterAdapter: newGoLevelDBIterator over every stored subset and every (start,end,direction),
// with the source created range-limited (as GoLevelDB.Iterator does) or unlimited.
func C18_LevelIterAdapter() {
	e := &c18env{keys: c18keys(2)}
	mask := vChoice("mask", 1<<c18Pool)
	for i := 0; i < c18Pool; i++ {
		if mask&(1<<uint(i)) != 0 {
			e.m.present[i] = true
			e.m.vals[i] = vBytes("v", 1)
		}
	}
	si := vChoice("start", c18Pool+1) - 1
	ei := vChoice("end", c18Pool+1) - 1
	reverse := vChoice("reverse", 2) == 1
	limited := vChoice("limited", 2) == 1
	var start, end []byte
	if si >= 0 {
		start = e.keys[si]
	}
	if ei >= 0 {
		end = e.keys[ei]
	}
	src := &c18ldbIter{pos: -1}
	for i := 0; i < c18Pool; i++ {
		if !e.m.present[i] {
			continue
		}
		if limited && ((si >= 0 && i < si) || (ei >= 0 && i >= ei)) {
			continue
		}
		src.keys = append(src.keys, e.keys[i])
		src.vals = append(src.vals, e.m.vals[i])
	}
	it := newGoLevelDBIterator(src, start, end, reverse)
	want := e.expected(si, ei, reverse)
	pos := 0
	for ; it.Valid(); it.Next() {
		vAssert(pos < len(want), "ldb:iterator-extra")
		if pos < len(want) {
			vAssert(vEqBytes(it.Key(), e.keys[want[pos]]), "ldb:iterator-key")
			vAssert(vEqBytes(it.Value(), e.m.vals[want[pos]]), "ldb:iterator-value")
		}
		pos++
	}
	vAssert(pos == len(want), "ldb:iterator-missing")
	vAssert(!it.Valid(), "ldb:invalid-for-good")
	vAssert(it.Close() == nil, "ldb:close")
	vCover("ldb-adapter-checked")
}
