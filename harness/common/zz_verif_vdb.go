package PKGNAME

// vDB: the storage model used by every harness — the ordered-KV contract of db/types.go
// (sorted map, iterators over [start,end), atomic in-order batches, no empty keys, no nil
// values) plus the knobs that turn the environment into symbolic variables:
//   - crashAt: physical batch writes with index >= crashAt never reach the store and the
//     process "stops" (panic vCrash, recovered by vCatchCrash)
//   - failAt:  the storage call with index failAt returns vErrInjected
//   - reads:   number of point reads (C11)
// It is ordinary Go, executed by the symbolic executor like the code under test and
// natively during replay.

import (
	"bytes"
	"errors"

	corestore "cosmossdk.io/core/store"
)

var vErrInjected = errors.New("verif: injected storage failure")
var vErrBatchClosed = errors.New("batch has been written or closed")
var vErrKeyEmpty = errors.New("key cannot be empty")
var vErrValueNil = errors.New("value cannot be nil")

type vCrash struct{}

type vDB struct {
	keys [][]byte
	vals [][]byte

	writes  int // physical batch writes performed so far
	crashAt int // -1: never
	crashed bool

	calls   int // storage calls so far (fault injection)
	failAt  int // -1: never
	failAt2 int // -1: never
	failed  int // number of injected failures so far

	reads          int
	openIters      int
	writeInIter    int
	writeSizes     []int
	opsSinceOpen   int
	onCall         func(kind string) // optional hook (C06 injection points)
	onDone         func(kind string) // optional hook after a read has been answered (C06: preemption of a reader)
	inHook         bool
	directWrites   int
	closedDB       bool
	iterCreated    int
	batchesCreated int
}

var _ corestore.KVStoreWithBatch = (*vDB)(nil)

func newVDB() *vDB {
	return &vDB{crashAt: -1, failAt: -1, failAt2: -1}
}

// clone returns an independent copy of the store image (keys/values only).
func (d *vDB) clone() *vDB {
	n := newVDB()
	n.keys = make([][]byte, len(d.keys))
	n.vals = make([][]byte, len(d.vals))
	for i := range d.keys {
		n.keys[i] = d.keys[i]
		n.vals[i] = d.vals[i]
	}
	return n
}

func (d *vDB) fault(kind string) bool {
	if d.onCall != nil && !d.inHook {
		d.inHook = true
		d.onCall(kind)
		d.inHook = false
	}
	c := d.calls
	d.calls++
	if c == d.failAt || c == d.failAt2 {
		d.failed++
		return true
	}
	return false
}

func (d *vDB) done(kind string) {
	if d.onDone != nil && !d.inHook {
		d.inHook = true
		d.onDone(kind)
		d.inHook = false
	}
}

// find returns the position of key and whether it is present.
func (d *vDB) find(key []byte) (int, bool) {
	lo, hi := 0, len(d.keys)
	for lo < hi {
		mid := (lo + hi) / 2
		c := bytes.Compare(d.keys[mid], key)
		if c == 0 {
			return mid, true
		}
		if c < 0 {
			lo = mid + 1
		} else {
			hi = mid
		}
	}
	return lo, false
}

// lowerBound returns the first position whose key is >= key.
func (d *vDB) lowerBound(key []byte) int {
	i, _ := d.find(key)
	return i
}

func vCopy(b []byte) []byte {
	if b == nil {
		return nil
	}
	out := make([]byte, len(b))
	copy(out, b)
	return out
}

func (d *vDB) Get(key []byte) ([]byte, error) {
	if len(key) == 0 {
		return nil, vErrKeyEmpty
	}
	if d.fault("get") {
		return nil, vErrInjected
	}
	d.reads++
	i, ok := d.find(key)
	var out []byte
	if ok {
		out = vCopy(d.vals[i])
	}
	d.done("get")
	return out, nil
}

func (d *vDB) Has(key []byte) (bool, error) {
	if len(key) == 0 {
		return false, vErrKeyEmpty
	}
	if d.fault("has") {
		return false, vErrInjected
	}
	d.reads++
	_, ok := d.find(key)
	d.done("has")
	return ok, nil
}

func (d *vDB) put(key, value []byte) {
	i, ok := d.find(key)
	if ok {
		d.vals[i] = vCopy(value)
		return
	}
	d.keys = append(d.keys, nil)
	d.vals = append(d.vals, nil)
	copy(d.keys[i+1:], d.keys[i:])
	copy(d.vals[i+1:], d.vals[i:])
	d.keys[i] = vCopy(key)
	d.vals[i] = vCopy(value)
}

func (d *vDB) del(key []byte) {
	i, ok := d.find(key)
	if !ok {
		return
	}
	copy(d.keys[i:], d.keys[i+1:])
	copy(d.vals[i:], d.vals[i+1:])
	d.keys = d.keys[:len(d.keys)-1]
	d.vals = d.vals[:len(d.vals)-1]
}

// physical marks one physical write and reports whether it reaches the store: from the crash
// point on, the process is considered stopped — every later write is dropped (the interrupted
// operation keeps running in memory, but nothing it does can reach the store image any more, and
// the harness discards its in-memory state and its result).
func (d *vDB) physical(size int) bool {
	if d.crashed {
		return false
	}
	if d.crashAt >= 0 && d.writes >= d.crashAt {
		d.crashed = true
		return false
	}
	d.writes++
	d.writeSizes = append(d.writeSizes, size)
	if d.openIters > 0 {
		d.writeInIter++
	}
	return true
}

func (d *vDB) Set(key, value []byte) error {
	if len(key) == 0 {
		return vErrKeyEmpty
	}
	if value == nil {
		return vErrValueNil
	}
	if d.fault("set") {
		return vErrInjected
	}
	if d.physical(len(key) + len(value)) {
		d.directWrites++
		d.put(key, value)
	}
	return nil
}

func (d *vDB) Delete(key []byte) error {
	if len(key) == 0 {
		return vErrKeyEmpty
	}
	if d.fault("delete") {
		return vErrInjected
	}
	if d.physical(len(key)) {
		d.directWrites++
		d.del(key)
	}
	return nil
}

func (d *vDB) Close() error {
	d.closedDB = true
	return nil
}

// ---- iterators (snapshot at creation)

type vIter struct {
	d          *vDB
	keys, vals [][]byte
	pos        int
	start, end []byte
	closed     bool
	err        error
	failStep   bool
}

func (d *vDB) newIter(start, end []byte, reverse bool) (corestore.Iterator, error) {
	if (start != nil && len(start) == 0) || (end != nil && len(end) == 0) {
		return nil, vErrKeyEmpty
	}
	if d.fault("iterator") {
		return nil, vErrInjected
	}
	d.iterCreated++
	lo := 0
	if start != nil {
		lo = d.lowerBound(start)
	}
	hi := len(d.keys)
	if end != nil {
		hi = d.lowerBound(end)
	}
	it := &vIter{d: d, start: start, end: end}
	if hi > lo {
		n := hi - lo
		it.keys = make([][]byte, n)
		it.vals = make([][]byte, n)
		for i := 0; i < n; i++ {
			j := lo + i
			if reverse {
				j = hi - 1 - i
			}
			it.keys[i] = d.keys[j]
			it.vals[i] = d.vals[j]
		}
	}
	d.openIters++
	d.done("iterator")
	return it, nil
}

func (d *vDB) Iterator(start, end []byte) (corestore.Iterator, error) {
	return d.newIter(start, end, false)
}

func (d *vDB) ReverseIterator(start, end []byte) (corestore.Iterator, error) {
	return d.newIter(start, end, true)
}

func (it *vIter) Domain() ([]byte, []byte) { return it.start, it.end }

func (it *vIter) Valid() bool {
	return !it.closed && it.err == nil && it.pos < len(it.keys)
}

func (it *vIter) Next() {
	if !it.Valid() {
		panic("iterator is invalid")
	}
	if it.d.fault("iternext") {
		it.err = vErrInjected
		return
	}
	it.pos++
}

func (it *vIter) Key() []byte {
	if !it.Valid() {
		panic("iterator is invalid")
	}
	return vCopy(it.keys[it.pos])
}

func (it *vIter) Value() []byte {
	if !it.Valid() {
		panic("iterator is invalid")
	}
	return vCopy(it.vals[it.pos])
}

func (it *vIter) Error() error { return it.err }

func (it *vIter) Close() error {
	if !it.closed {
		it.closed = true
		it.d.openIters--
	}
	return nil
}

// ---- batches

type vOp struct {
	del        bool
	key, value []byte
}

type vBatch struct {
	d    *vDB
	ops  []vOp
	size int
	done bool
}

func (d *vDB) NewBatch() corestore.Batch {
	d.batchesCreated++
	return &vBatch{d: d}
}

func (d *vDB) NewBatchWithSize(int) corestore.Batch {
	d.batchesCreated++
	return &vBatch{d: d}
}

func (b *vBatch) Set(key, value []byte) error {
	if len(key) == 0 {
		return vErrKeyEmpty
	}
	if value == nil {
		return vErrValueNil
	}
	if b.done {
		return vErrBatchClosed
	}
	if b.d.fault("batchset") {
		return vErrInjected
	}
	b.size += len(key) + len(value)
	b.ops = append(b.ops, vOp{key: vCopy(key), value: vCopy(value)})
	return nil
}

func (b *vBatch) Delete(key []byte) error {
	if len(key) == 0 {
		return vErrKeyEmpty
	}
	if b.done {
		return vErrBatchClosed
	}
	if b.d.fault("batchdelete") {
		return vErrInjected
	}
	b.size += len(key)
	b.ops = append(b.ops, vOp{del: true, key: vCopy(key)})
	return nil
}

func (b *vBatch) Write() error {
	if b.done {
		return vErrBatchClosed
	}
	if b.d.fault("batchwrite") {
		return vErrInjected
	}
	reach := true
	if len(b.ops) > 0 {
		reach = b.d.physical(b.size)
	}
	for _, op := range b.ops {
		if !reach {
			break
		}
		if op.del {
			b.d.del(op.key)
		} else {
			b.d.put(op.key, op.value)
		}
	}
	b.done = true
	b.ops = nil
	return nil
}

func (b *vBatch) WriteSync() error { return b.Write() }

func (b *vBatch) Close() error {
	b.done = true
	b.ops = nil
	return nil
}

func (b *vBatch) GetByteSize() (int, error) {
	if b.done {
		return 0, vErrBatchClosed
	}
	return b.size, nil
}

// catchCrash runs f and reports whether the crash point was reached. After the crash point the
// operation runs on without effect on the store; whatever it returns or panics with is discarded.
func (d *vDB) catchCrash(f func()) (crashed bool) {
	defer func() {
		if r := recover(); r != nil {
			if d.crashed {
				crashed = true
				return
			}
			panic(r)
		}
	}()
	f()
	return d.crashed
}
