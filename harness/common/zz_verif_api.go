package PKGNAME

// Harness API. In the symbolic executor every function below is intercepted by name
// (engine/symgo/api.go) and its body is never executed. The bodies are the NATIVE
// semantics used when a solver model is replayed as an ordinary Go test: inputs are
// read from the recorded vector in call order.

import (
	"bytes"
	"fmt"
	"os"
)

type vIn struct {
	Kind string `json:"kind"`
	Tag  string `json:"tag"`
	Val  int64  `json:"val"`
}

type vObs struct {
	Label string   `json:"label"`
	Vals  []string `json:"vals"`
}

type vState struct {
	inputs   []vIn
	pos      int
	observed []vObs
	covers   map[string]bool
	known    map[string]bool
	tier     string
	failures []string
	region   string
	tempDirs []string
}

// vRegion: until cleared with "", every assertion is reported under this label.
func vRegion(label string) { vS.region = label }

func vIsFindingLabel(l string) bool {
	if len(l) < 3 || l[0] != 'F' {
		return false
	}
	i := 1
	for i < len(l) && l[i] >= '0' && l[i] <= '9' {
		i++
	}
	return i > 1 && i < len(l) && l[i] == ':'
}

var vS = &vState{}

type vFailure struct{ label string }
type vAbort struct{ reason string }

var vHarnesses = map[string]func(){}

func vReg(name string, f func()) bool {
	vHarnesses[name] = f
	return true
}

func vNext(kind, tag string) int64 {
	if vS.pos >= len(vS.inputs) {
		if len(vS.failures) > 0 {
			// the recorded vector ends at the violation inside a finding region
			panic(vAbort{"end-after-finding"})
		}
		panic(vAbort{fmt.Sprintf("diverge: inputs exhausted at %s %q", kind, tag)})
	}
	in := vS.inputs[vS.pos]
	if in.Kind != kind {
		panic(vAbort{fmt.Sprintf("diverge: input %d is %s %q, harness wants %s %q", vS.pos, in.Kind, in.Tag, kind, tag)})
	}
	vS.pos++
	return in.Val
}

func vByte(tag string) byte { return byte(vNext("byte", tag)) }

func vBytes(tag string, n int) []byte {
	out := make([]byte, n)
	for i := range out {
		out[i] = byte(vNext("byte", tag))
	}
	return out
}

func vInt64(tag string) int64   { return vNext("int64", tag) }
func vInt(tag string) int       { return int(vNext("int64", tag)) }
func vInt8(tag string) int8     { return int8(vNext("int64", tag)) }
func vInt32(tag string) int32   { return int32(vNext("int64", tag)) }
func vUint32(tag string) uint32 { return uint32(vNext("int64", tag)) }
func vUint64(tag string) uint64 { return uint64(vNext("int64", tag)) }
func vBool(tag string) bool     { return vNext("bool", tag) != 0 }

func vIntRange(tag string, lo, hi int) int {
	x := int(vNext("int64", tag))
	if x < lo || x > hi {
		panic(vAbort{"assume"})
	}
	return x
}

func vChoice(tag string, n int) int {
	x := int(vNext("choice", tag))
	if x < 0 || x >= n {
		panic(vAbort{fmt.Sprintf("diverge: choice %q = %d not in [0,%d)", tag, x, n)})
	}
	return x
}

func vAssume(c bool) {
	if !c {
		panic(vAbort{"assume"})
	}
}

func vOrdered(keys [][]byte) {
	for i := 0; i+1 < len(keys); i++ {
		if bytes.Compare(keys[i], keys[i+1]) >= 0 {
			panic(vAbort{"assume"})
		}
	}
}

func vAssert(c bool, label string) {
	if vS.region != "" {
		label = vS.region
	}
	if !c {
		if vIsFindingLabel(label) {
			// region of a recorded finding: note it and keep going (the executor does the same)
			vS.failures = append(vS.failures, label)
			return
		}
		panic(vFailure{label})
	}
}

func vFail(label string) { panic(vFailure{label}) }

func vCover(label string) {
	if vS.covers != nil {
		vS.covers[label] = true
	}
}

func vStop() { panic(vAbort{"stop"}) }

func vNative() bool { return true }

// vTempDir returns a fresh scratch directory natively (removed when the case ends) and "" in the executor.
func vTempDir() string {
	d, err := os.MkdirTemp("", "verif-case-")
	if err != nil {
		panic(vAbort{"tempdir: " + err.Error()})
	}
	vS.tempDirs = append(vS.tempDirs, d)
	return d
}

func vKnown(id string) bool { return vS.known[id] }

func vTier() string { return vS.tier }

func vAnd(a, b bool) bool     { return a && b }
func vOr(a, b bool) bool      { return a || b }
func vNot(a bool) bool        { return !a }
func vImplies(a, b bool) bool { return !a || b }

func vEqBytes(a, b []byte) bool   { return bytes.Equal(a, b) }
func vLessBytes(a, b []byte) bool { return bytes.Compare(a, b) < 0 }

func vIteInt(c bool, a, b int) int {
	if c {
		return a
	}
	return b
}

func vConcrete(x int) int       { return x }
func vConcreteBool(x bool) bool { return x }
func vIsSym(x interface{}) bool { return false }
func vSteps() int               { return 0 }

func vObserve(label string, vals ...interface{}) {
	o := vObs{Label: label}
	for _, v := range vals {
		switch x := v.(type) {
		case []byte:
			if x == nil {
				o.Vals = append(o.Vals, "nil")
			} else {
				o.Vals = append(o.Vals, fmt.Sprintf("x%x", x))
			}
		case string:
			o.Vals = append(o.Vals, fmt.Sprintf("%x", x))
		case bool:
			o.Vals = append(o.Vals, fmt.Sprint(x))
		case int, int8, int16, int32, int64, uint, uint8, uint16, uint32, uint64:
			o.Vals = append(o.Vals, fmt.Sprint(x))
		default:
			o.Vals = append(o.Vals, "<opaque>")
		}
	}
	vS.observed = append(vS.observed, o)
}
