package PKGNAME

// Native replay driver: runs harnesses on recorded input vectors (solver models) against
// the real build. One line per case on stdout:
//   REPLAY <index> <harness> <result> <json observations>
// result ∈ pass | fail:<label> | panic:<msg> | abort:<reason> | timeout

import (
	"encoding/json"
	"fmt"
	"os"
	"runtime"
	"strconv"
	"strings"
	"testing"
	"time"
)

type vCase struct {
	Harness string   `json:"harness"`
	Inputs  []vIn    `json:"inputs"`
	Known   []string `json:"known"`
	Tier    string   `json:"tier"`
}

func vRunCase(c vCase) (result string, obs []vObs) {
	f, ok := vHarnesses[c.Harness]
	if !ok {
		return "abort:no such harness", nil
	}
	vS = &vState{inputs: c.Inputs, covers: map[string]bool{}, known: map[string]bool{}, tier: c.Tier}
	for _, k := range c.Known {
		vS.known[k] = true
	}
	st := vS
	defer func() {
		for _, d := range st.tempDirs {
			os.RemoveAll(d)
		}
	}()
	done := make(chan string, 1)
	go func() {
		defer func() {
			if r := recover(); r != nil {
				switch x := r.(type) {
				case vFailure:
					done <- "fail:" + strings.Join(append(st.failures, x.label), "|")
				case vAbort:
					if x.reason == "end-after-finding" {
						done <- "fail:" + strings.Join(st.failures, "|")
					} else {
						done <- "abort:" + x.reason
					}
				default:
					msg := fmt.Sprint(r)
					msg = strings.ReplaceAll(msg, "\n", " ")
					if len(st.failures) > 0 {
						done <- "fail:" + strings.Join(st.failures, "|") + "|panic:" + msg
					} else {
						done <- "panic:" + msg
					}
				}
				return
			}
			if st.pos != len(st.inputs) {
				done <- fmt.Sprintf("abort:diverge: %d of %d inputs unused", len(st.inputs)-st.pos, len(st.inputs))
				return
			}
			if len(st.failures) > 0 {
				done <- "fail:" + strings.Join(st.failures, "|")
				return
			}
			done <- "pass"
		}()
		f()
	}()
	timeout := 60 * time.Second
	if s := os.Getenv("VERIF_REPLAY_TIMEOUT"); s != "" {
		if n, err := strconv.Atoi(s); err == nil {
			timeout = time.Duration(n) * time.Second
		}
	}
	var ms0, ms1 runtime.MemStats
	runtime.ReadMemStats(&ms0)
	select {
	case r := <-done:
		runtime.ReadMemStats(&ms1)
		if ms1.TotalAlloc-ms0.TotalAlloc > 1<<24 {
			r += " alloc>2^20"
		}
		return r, st.observed
	case <-time.After(timeout):
		return "timeout", nil
	}
}

func TestVerifReplay(t *testing.T) {
	path := os.Getenv("VERIF_REPLAY")
	if path == "" {
		t.Skip("VERIF_REPLAY not set")
	}
	data, err := os.ReadFile(path)
	if err != nil {
		t.Fatal(err)
	}
	var cases []vCase
	if err := json.Unmarshal(data, &cases); err != nil {
		t.Fatal(err)
	}
	only := -1
	if s := os.Getenv("VERIF_REPLAY_ONLY"); s != "" {
		only, _ = strconv.Atoi(s)
	}
	for i, c := range cases {
		if only >= 0 && i != only {
			continue
		}
		fmt.Printf("REPLAY-START %d %s\n", i, c.Harness)
		res, obs := vRunCase(c)
		ob, _ := json.Marshal(obs)
		fmt.Printf("REPLAY %d %s %s %s\n", i, c.Harness, strconv.Quote(res), string(ob))
	}
}
