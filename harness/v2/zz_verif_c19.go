package iavl

// C19 v2 computes the same tree as v1: same hashes, contents and iteration.
// The in-memory kernels of /repo/v2 run from source; every SqliteDb / sqlWriter method is a stub
// ("succeeds, stores nothing") in the executor and options never evict, so nothing is ever
// loaded back from SQL. Natively (replay) a real in-memory SQLite database is used.

var _ = vReg("C19_V2_History", C19_V2_History)

func c19Expected(m *vModel, n, si, ei int, asc, inclusive bool) []int {
	var out []int
	for i := 0; i < n; i++ {
		if !m.present[i] || (si >= 0 && i < si) {
			continue
		}
		if ei >= 0 && (i > ei || (i == ei && !inclusive)) {
			continue
		}
		out = append(out, i)
	}
	if !asc {
		for a, b := 0, len(out)-1; a < b; a, b = a+1, b-1 {
			out[a], out[b] = out[b], out[a]
		}
	}
	return out
}

func C19_V2_History() {
	n := 3
	maxV := 2
	if vTier() == "thorough" {
		maxV = 3
	}
	p := vNewPool(n, vLenVector(n, 1))
	pool := NewNodePool()
	// natively every case gets its own database file (the in-memory database of NewInMemorySqliteDb is
	// shared by all connections of a process); in the executor the constructor is a stub
	sql, err := NewSqliteDb(pool, SqliteDbOptions{Path: vTempDir()})
	vAssert(err == nil, "c19:sqlite")
	opts := DefaultTreeOptions()
	opts.HeightFilter = 0
	opts.EvictionDepth = 127
	switch vChoice("checkpoint", 3) {
	case 0:
		opts.CheckpointInterval = 1
	case 1:
		opts.CheckpointInterval = 2
	}
	tree := NewTree(sql, pool, opts)
	work := &vModel{}
	var ref *rNode
	// profile 0: every version applies any normal-form write set (per key: nothing, Set, Remove if present);
	// profile 1: one more version, but versions after the first apply at most one write
	profile := vChoice("profile", 2)
	if profile == 1 {
		maxV++
	}
	nv := 1 + vChoice("nversions", maxV)
	doWrite := func(i, kind int) {
		switch kind {
		case 1:
			val := vBytes("v", 1)
			upd, err := tree.Set(p.keys[i], val)
			vAssert(err == nil, "c19:set-err")
			vAssert(upd == work.present[i], "c19:set-updated-flag")
			work.present[i], work.vals[i] = true, val
			ref, _ = rSet(ref, 2*i, p.keys[i], val)
		case 2:
			if !work.present[i] {
				// the removal of a missing key changes nothing (v1: Remove reports false and leaves every
				// node alone, so the next commit hash is the reference's)
				_, removed, err := tree.Remove(p.keys[i])
				vAssert(err == nil, "c19:remove-missing-err")
				vAssert(!removed, "c19:remove-missing-flag")
				vCover("removal-of-a-missing-key")
				return
			}
			// (the value returned by v2's Remove is not part of C19; it is nil because the node is
			// recycled before its value is read — noted in DESIGN.md, not asserted here)
			_, removed, err := tree.Remove(p.keys[i])
			vAssert(err == nil, "c19:remove-err")
			vAssert(removed, "c19:remove-flag")
			work.present[i], work.vals[i] = false, nil
			ref, _, _, _, _ = rRemove(ref, 2*i)
		}
	}
	for v := int64(1); v <= int64(nv); v++ {
		if profile == 1 && v > 1 {
			c := vChoice("single", 2*n+1)
			if c > 0 {
				doWrite((c-1)%n, 1+(c-1)/n)
			}
		} else {
			for i := 0; i < n; i++ {
				doWrite(i, vChoice("write", 3))
			}
		}
		hash, ver, err := tree.SaveVersion()
		vAssert(err == nil, "c19:save-err")
		vAssert(ver == v, "c19:version")
		rCommit(ref, v)
		vAssert(vEqBytes(hash, rHash(ref, v)), "c19:hash=reference")
		vAssert(vEqBytes(tree.Hash(), rHash(ref, v)), "c19:Hash()=reference")
	}
	// reads
	sz := work.size(n)
	if sz > 0 {
		vAssert(tree.Size() == int64(sz), "c19:size")
		vAssert(tree.Height() == ref.height, "c19:height")
	}
	for i := 0; i < n; i++ {
		val, err := tree.Get(p.keys[i])
		vAssert(err == nil, "c19:get-err")
		has, err := tree.Has(p.keys[i])
		vAssert(err == nil, "c19:has-err")
		vAssert(has == work.present[i], "c19:has")
		if work.present[i] {
			vAssert(val != nil, "c19:get-missing")
			if val != nil {
				vAssert(vEqBytes(val, work.vals[i]), "c19:get-value")
			}
		} else {
			vAssert(val == nil, "c19:get-phantom")
		}
	}
	// iterators: forward (exclusive / inclusive end) and reverse, bounds nil or any pool key
	if sz > 0 {
		si := vChoice("start", n+1) - 1
		ei := vChoice("end", n+1) - 1
		var start, end []byte
		if si >= 0 {
			start = p.keys[si]
		}
		if ei >= 0 {
			end = p.keys[ei]
		}
		kind := vChoice("iter", 3)
		var it Iterator
		var want []int
		switch kind {
		case 0:
			it, err = tree.Iterator(start, end, false)
			want = c19Expected(work, n, si, ei, true, false)
		case 1:
			it, err = tree.Iterator(start, end, true)
			want = c19Expected(work, n, si, ei, true, true)
		case 2:
			it, err = tree.ReverseIterator(start, end)
			want = c19Expected(work, n, si, ei, false, false)
		}
		vAssert(err == nil, "c19:iterator-err")
		pos := 0
		for ; it.Valid(); it.Next() {
			vAssert(pos < len(want), "c19:iterator-extra")
			if pos < len(want) {
				vAssert(vEqBytes(it.Key(), p.keys[want[pos]]), "c19:iterator-key")
				vAssert(vEqBytes(it.Value(), work.vals[want[pos]]), "c19:iterator-value")
			}
			pos++
		}
		vAssert(pos == len(want), "c19:iterator-missing")
		vAssert(it.Error() == nil, "c19:iterator-error")
		it.Close()
	}
	vCover("v2-history")
}
